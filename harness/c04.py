"""C04 — environments are re-readable: random pipelines x read histories (twin-pipeline oracle), Cache model correspondence."""
import copy, pickle, os, shutil, tempfile
from itertools import islice
from .common import *
from . import c05

LEVEL_TEXT = ("Coq theorems (C04/Props.v) over the generator state machine of pipes.Cache (the filter behind cache(), chunk(), materialize()): for every history of complete reads and reads abandoned after k items on one "
              "object, every read returns exactly the prefix of the source it consumed (invariant cache++rest = source by induction over the pull loop and over the history); premature completion loses data (refuted); the same under histories that also contain reads whose source raises and pickle round trips of the object (cache_survives_failures_and_pickling); "
              "the logged Shuffle restores its temporary seed on completion and on drop. The Cache model is compared with the real class under counted upstream reads; random environment pipelines are read under random "
              "histories and compared with themselves and with a freshly built twin (the read-twice oracle), incl. params, pickling, materialize and save/from_save, with deep snapshots of caller data.")
TRUSTED = ["Coq 8.16.1 kernel (coqc)", "extraction + ocaml/driver.ml", "harness/c04.py (pipeline generator, canonicalisation of interactions, snapshot comparison)",
           "modelled not verified: every filter other than pipes.Cache and the logged Shuffle is treated as a pure function of its input built from a fresh CobaRandom(seed) (C05 instances_independent) - this is checked by the twin oracle, not proved; "
           "CPython generator close semantics (a dropped generator runs only its finally blocks); in-place aliasing ('reading never modifies caller data') is checked by snapshot only"]
ASSUMPTIONS = ["sources are re-iterable (lists, lambdas, seeded synthetics, in-memory text sources)", "pipelines that raise on their first complete read are type-incompatible and skipped (counted)"]
RULE = ("sources: synthetic (linear/neighbors/kernel/mlp/bandit), lambda, supervised from (X,Y) and from CSV/ARFF text; 0-5 filters with random parameters (shuffle, take, slice, reservoir, sort, scale, impute, where, noise, riffle, "
        "flatten, binary, sparse, dense, repr, cycle, params, batch/unbatch, logged+shuffle, ope_rewards, cache, chunk); histories of 2-5 operations out of full read, partial read k, params, pickle round trip, materialize, save/from_save; Cache event histories of 1-6 events (complete/abandoned read, source failure at item f, pickle); held params dicts; "
        "non-trivial = at least one filter and a history with a partial read or a round trip")

def fingerprints():
    fp = fingerprint_defs('coba/pipes/filters.py', ['Cache', 'Shuffle', 'Reservoir'])
    fp.update(fingerprint_defs('coba/environments/filters.py', ['Shuffle', 'Cache', 'Cycle', 'Densify', 'EmptyCheck', 'Logged', 'OpeRewards']))
    fp.update(fingerprint_defs('coba/environments/core.py', ['Environments.materialize', 'Environments.cache', 'Environments.chunk', 'Environments.save']))
    return fp

# ------------------------------------------------------------------ canonical form of interactions
def canon_val(v):
    if v is None or isinstance(v, (int, float, str, bool)): return v
    if hasattr(v, "items") and callable(getattr(v, "items")): return {"__sparse__": sorted((str(k), canon_val(x)) for k, x in v.items())}
    if isinstance(v, (list, tuple)) or hasattr(v, "__iter__"): return [canon_val(x) for x in v]
    return repr(v)

def canon(inter):
    out = {}
    acts = inter.get("actions")
    for k, v in inter.items():
        if k in ("rewards", "feedbacks") and callable(v):
            try: out[k] = [v(a) for a in acts]
            except Exception as e: out[k] = "raises:" + errname(e)
        else: out[k] = canon_val(v)
    return out

def read_all(env, k=None):
    it = iter(env.read())
    if k is None: return [canon(i) for i in it]
    out = [canon(i) for i in islice(it, k)]
    del it
    return out

# ------------------------------------------------------------------ pipelines
HELD = []      # learner objects the "caller" passed to logged(...): reading must not train them
class LocalLearner:
    """a stateful logging learner that cannot be pickled (it holds a lambda)"""
    def __init__(self, k): self.k, self.n, self.f = k, 0, (lambda x: x)
    @property
    def params(self): return {"family": "Local", "k": self.k}
    def predict(self, context, actions): return actions[(self.n + self.k) % len(actions)], 1.0
    def learn(self, context, action, reward, probability, **kw): self.n += 1

def gen_pipeline(rng):
    """returns (builder, description): builder() constructs a fresh, equal pipeline (Environments of one env)"""
    import coba
    from coba.learners import RandomLearner, BanditEpsilonLearner
    n = rng.choice([0, 1, 3, 8, 20, 40])
    s = rng.randrange(1, 20)
    src_kind = rng.choice(["linear", "neighbors", "kernel", "mlp", "bandit", "lambda", "xy", "csv", "arff", "xysparse"])
    XS = [{k: rng.randrange(1, 6) for k in rng.sample("abcdefg", rng.randrange(1, 4))} for _ in range(max(n, 1))]
    X = [[rng.randrange(0, 5), rng.choice([1.5, 2.5, None]) if src_kind == "xy" else rng.randrange(0, 5)] for _ in range(max(n, 1))]
    Y = [rng.choice(["a", "b", "c"]) for _ in range(max(n, 1))]
    csv_lines = ["%d,%d,%s" % (x[0], 3, y) for x, y in zip(X, Y)]
    arff_lines = ["@relation t", "@attribute f numeric", "@attribute g numeric", "@attribute c {a,b,c}", "@data"] + ["%d,%d,%s" % (x[0], 3, y) for x, y in zip(X, Y)]
    steps = []
    for _ in range(rng.choice([0, 1, 2, 2, 3, 4, 5])):
        k = rng.choice(["shuffle", "shuffle", "take", "slice", "reservoir", "sort", "scale", "impute", "where", "noise", "riffle", "flatten", "binary", "sparse", "dense",
                        "repr", "cycle", "params", "batch", "logged", "ope", "cache", "cache", "chunk", "fan", "logged-local", "grounded"])
        if k == "shuffle": steps.append(("shuffle", (rng.randrange(0, 9),)))
        elif k == "take": steps.append(("take", (rng.choice([0, 1, 3, 10, 50]), rng.random() < 0.3)))
        elif k == "slice": steps.append(("slice", (rng.choice([None, 0, 2]), rng.choice([None, 5, 30]), rng.choice([1, 2]))))
        elif k == "reservoir": steps.append(("reservoir", (rng.choice([0, 1, 3, 10, 50]), rng.choice([1, 2, c05.seed_for(0, rng.randrange(0, 5))]))))
        elif k == "sort": steps.append(("sort", (0,)))
        elif k == "scale": steps.append(("scale", (rng.choice(["min", "mean", 0]), rng.choice(["minmax", "std", "maxabs", 2]), "context", rng.choice([None, 2, 100]))))
        elif k == "impute": steps.append(("impute", (rng.choice(["mean", "median", "mode"]), rng.random() < 0.5, rng.choice([None, 2]))))
        elif k == "where": steps.append(("where", dict(n_interactions=rng.choice([None, 1, (2, 30), (None, 10)]), n_actions=rng.choice([None, (1, 5)]))))
        elif k == "noise": steps.append(("noise", ((0, 1), None, rng.choice([None, (0, 1)]), rng.randrange(1, 5))))
        elif k == "riffle": steps.append(("riffle", (rng.choice([1, 3]), rng.randrange(1, 5))))
        elif k == "dense": steps.append(("dense", (rng.choice([8, 50]), rng.choice(["lookup", "hashing"]))))
        elif k == "repr": steps.append(("repr", (rng.choice([None, "onehot", "string"]), rng.choice([None, "onehot", "onehot_tuple", "string"]))))
        elif k == "cycle": steps.append(("cycle", (rng.choice([0, 2, 100]),)))
        elif k == "params": steps.append(("params", ({"tag": rng.randrange(3)},)))
        elif k == "batch": steps.append(("batch", (rng.choice([1, 2, 7]),)))
        elif k == "logged": steps.append(("logged", (rng.choice(["random", "epsilon"]), rng.randrange(1, 5))))
        elif k == "ope": steps.append(("ope", ("IPS",)))
        elif k == "fan": steps.append(("fan", (rng.randrange(1, 9), rng.randrange(1, 9))))
        elif k == "logged-local": steps.append(("logged-local", (rng.randrange(1, 5),)))
        elif k == "grounded": steps.append(("grounded", (rng.choice([2, 5]), 2, rng.choice([3, 6]), 2, rng.randrange(1, 5))))
        else: steps.append((k, ()))
    def build(caller_data=None):
        E = coba.Environments
        if src_kind == "linear": env = E.from_linear_synthetic(n, n_actions=3, n_context_features=2, n_action_features=2, seed=s)
        elif src_kind == "neighbors": env = E.from_neighbors_synthetic(n, n_actions=3, n_context_features=2, n_action_features=0, n_neighborhoods=3, seed=s)
        elif src_kind == "kernel": env = E.from_kernel_synthetic(n, n_actions=3, n_context_features=2, n_action_features=2, n_exemplars=3, seed=s)
        elif src_kind == "mlp": env = E.from_mlp_synthetic(n, n_actions=3, n_context_features=2, n_action_features=2, seed=s)
        elif src_kind == "bandit": env = E.from_bandit_synthetic(n, n_actions=3, seed=s) if hasattr(E, "from_bandit_synthetic") else E.from_linear_synthetic(n, seed=s)
        elif src_kind == "lambda": env = E.from_lambda(n, _ctx, _acts, _rwd, s)
        elif src_kind == "xy":
            d = caller_data if caller_data is not None else (copy.deepcopy(X), copy.deepcopy(Y))
            env = E.from_supervised(d[0], d[1], "c")
        elif src_kind == "xysparse":
            env = E.from_supervised(copy.deepcopy(XS), copy.deepcopy(Y), "c")
        elif src_kind == "csv":
            from coba.environments.supervised import CsvSource; from coba.pipes import ListSource
            env = E.from_supervised(CsvSource(ListSource(list(csv_lines))), 2, "c")
        else:
            from coba.environments.supervised import ArffSource; from coba.pipes import ListSource
            env = E.from_supervised(ArffSource(ListSource(list(arff_lines))), "c", "c")
        for k, a in steps:
            if k == "where": env = env.where(**a)
            elif k == "sparse": env = env.sparse()
            elif k == "dense": env = env.dense(*a)
            elif k == "batch": env = env.batch(*a).unbatch()
            elif k == "logged": env = env.logged(RandomLearner(a[1]) if a[0] == "random" else BanditEpsilonLearner(0.3, a[1]), seed=a[1])
            elif k == "ope": env = env.ope_rewards(*a)
            elif k == "fan": env = env.shuffle(list(a))      # several environments from here on
            elif k == "logged-local":
                lrn = LocalLearner(a[0]); HELD.append(lrn); env = env.logged(lrn, seed=a[0])
            elif k == "noise": env = env.noise(context=a[0], action=a[1], reward=a[2], seed=a[3])
            else: env = getattr(env, k)(*a)
        return env
    return build, dict(source=src_kind, n=n, seed=s, steps=[(k, repr(a)) for k, a in steps], unpicklable=any(k == "logged-local" for k, _ in steps)), (X, Y) if src_kind == "xy" else None

def _ctx(i, rng): return [rng.randint(0, 5), i]
def _acts(i, c, rng): return [0, 1, 2]
def _rwd(i, c, a, rng): return rng.randint(0, 3) + a

def gen_history(rng, n):
    ops = []
    for _ in range(rng.randrange(2, 6)):
        k = rng.random()
        if k < 0.35: ops.append(("full",))
        elif k < 0.65: ops.append(("partial", rng.choice([0, 1, 2, max(n // 2, 1), max(n - 1, 0), n, 26, 30])))
        elif k < 0.72: ops.append(("hold", rng.choice([1, 2, max(n // 2, 1)])))      # a read that stays suspended while later reads run
        elif k < 0.78: ops.append(("params",))
        elif k < 0.86: ops.append(("pickle",))
        elif k < 0.93: ops.append(("materialize",))
        else: ops.append(("save",))
    return ops + [("full",)]

def run_pipelines(ctx, n_cases):
    import coba
    rng = ctx.rng
    work = tempfile.mkdtemp(prefix="c04-", dir=os.path.join(VERIF, ".work"))
    try:
        for idx in range(n_cases):
            build, desc, caller = gen_pipeline(rng)
            hist = gen_history(rng, desc["n"])
            case = dict(pipeline=desc, history=[list(h) for h in hist])
            nontrivial = bool(desc["steps"]) and any(h[0] in ("partial", "pickle", "materialize", "save") for h in hist)
            if desc.get("unpicklable"): hist = [h for h in hist if h[0] not in ("pickle", "save", "materialize")] or [("full",)]
            if any(k == "fan" for k, _ in desc["steps"]): hist = [("sibling",)] + hist
            case = dict(pipeline=desc, history=[list(h) for h in hist])
            try:
                snapshot = copy.deepcopy(caller)
                del HELD[:]
                twin = build()
                ref = read_all(twin[-1])
                ref_params = canon_val(dict(twin[-1].params))      # what an environment that has simply been read reports
                def params_sig(p, upto):
                    # known shape: an unread supervised environment written by save() is stored with the params it had before it was read (no n_actions)
                    lost = [kv for kv in ref_params["__sparse__"] if kv not in p["__sparse__"]]; extra = [kv for kv in p["__sparse__"] if kv not in ref_params["__sparse__"]]
                    if not extra and [k for k, _ in lost] == ["n_actions"] and any(x[0] == "save" for x in hist[:upto]): return ["reread", "params-differ-from-twin", "saved-before-read", "n_actions"]
                    return ["reread", "params-differ-from-twin"]
                del HELD[:]
            except Exception as e:
                ctx.count("pipeline:incompatible", repr(case), False); continue
            ctx.count("pipeline:" + desc["source"], repr(case), nontrivial)
            for k, _ in desc["steps"]: ctx.dist["filter:" + k] = ctx.dist.get("filter:" + k, 0) + 1
            for h in hist: ctx.dist["history:" + h[0]] = ctx.dist.get("history:" + h[0], 0) + 1
            try:
                envs = build(caller)
                env = envs[-1]
                held_iters = []
                params_seen = None
                for step, h in enumerate(hist):
                    if h[0] == "full":
                        got = read_all(env)
                        if got != ref: ctx.fail(["reread", "full-read-differs", h[0]], "complete read #%d differs from a fresh twin pipeline: %d vs %d interactions, first difference at %s" % (step, len(got), len(ref), next((i for i, (a, b) in enumerate(zip(got, ref)) if a != b), min(len(got), len(ref)))), dict(case, step=step)); break
                    elif h[0] == "partial":
                        got = read_all(env, h[1])
                        if got != ref[:h[1]]: ctx.fail(["reread", "partial-read-differs"], "read of %d items at step %d is not the prefix of the reference" % (h[1], step), dict(case, step=step)); break
                    elif h[0] == "hold":
                        it = iter(env.read()); got = [canon(i) for i in islice(it, h[1])]; held_iters.append(it)
                        if got != ref[:h[1]]: ctx.fail(["reread", "partial-read-differs", "overlapping"], "read of %d items at step %d (kept suspended) is not the prefix of the reference" % (h[1], step), dict(case, step=step)); break
                    elif h[0] == "sibling":
                        if len(envs) > 1: read_all(envs[0])
                    elif h[0] == "params":
                        p = canon_val(dict(env.params))
                        if params_seen is not None and p != params_seen: ctx.fail(["reread", "params-changed"], "params %r then %r" % (params_seen, p), dict(case, step=step)); break
                        if any(x[0] == "full" for x in hist[:step]):
                            params_seen = p
                            if p != ref_params: ctx.fail(params_sig(p, step), "params after a complete read are %r, an identical environment that was simply read reports %r" % (p, ref_params), dict(case, step=step)); break
                    elif h[0] == "pickle":
                        env = pickle.loads(pickle.dumps(env))
                    elif h[0] == "materialize":
                        env = coba.Environments(env).materialize()[0]
                    elif h[0] == "save":
                        path = os.path.join(work, "e%d.zip" % idx)
                        env = coba.Environments(env).save(path, overwrite=True)[0]
                else:
                    p = canon_val(dict(env.params))
                    if p != ref_params: ctx.fail(params_sig(p, len(hist)), "params after the history are %r, an identical environment that was simply read reports %r" % (p, ref_params), case)
                    elif any(l.n != 0 for l in HELD): ctx.fail(["reread", "caller-learner-trained"], "the learner object passed to logged(...) was trained by reading the environment (it has learned %s times)" % [l.n for l in HELD], case)
                    elif caller is not None and caller != snapshot: ctx.fail(["reread", "caller-data-modified"], "the X/Y lists passed to from_supervised were modified by reading", case)
                    else: ctx.sample(dict(case=case, n_ref=len(ref)), cap=4)
            except Exception as e:
                ctx.fail(["reread", "raises", errname(e), hist[step][0] if 'step' in dir() else "?"], "history step raised %s: %s on %s" % (errname(e), str(e)[:120], case), case)
    finally:
        shutil.rmtree(work, ignore_errors=True)

# ------------------------------------------------------------------ Cache vs model
class Counted:
    def __init__(self, items): self.items = items; self.pulled = 0; self.iters = 0
    def __iter__(self):
        self.iters += 1
        for x in self.items: self.pulled += 1; yield x

def run_cache(ctx, n_cases):
    import coba.pipes.filters as P
    import coba.environments.filters as EF
    rng = ctx.rng
    reqs, metas = [], []
    for _ in range(n_cases):
        N = rng.choice([0, 1, 3, 7, 26, 60]); ns = rng.choice([1, 2, 5, 25])
        src = list(range(100, 100 + N))
        hist = [rng.choice([None, 0, 1, 2, N // 2, max(N - 1, 0), N, N + 3, 25, 26]) for _ in range(rng.randrange(1, 6))]
        env_level = rng.random() < 0.3
        case = dict(n_slice=ns, N=N, history=hist, environment_cache=env_level)
        ctx.count("cache", repr(case), N >= 2 and len(hist) >= 2)
        flt = EF.Cache(ns) if env_level else P.Cache(ns)
        up = Counted([{"id": x} for x in src] if env_level else src)
        outs = []
        try:
            for k in hist:
                it = iter(flt.filter(up))
                o = list(it) if k is None else list(islice(it, k))
                del it
                outs.append([x["id"] for x in o] if env_level else o)
        except Exception as e:
            ctx.fail(["cache", "raises", errname(e)], "Cache raised %s on %s" % (errname(e), case), case); continue
        exp = [src if k is None else src[:k] for k in hist]
        if outs != exp: ctx.fail(["cache", "wrong-read"], "reads %s, expected the consumed prefixes %s" % ([len(o) for o in outs], [len(e) for e in exp]), case); continue
        if up.pulled > N or up.iters > 1: ctx.fail(["cache", "upstream-read-twice"], "the upstream was iterated %d times / %d items pulled for %d items" % (up.iters, up.pulled, N), case); continue
        reqs.append((4, [ns, src, [s_opt(k) for k in hist]])); metas.append((case, outs))
    for (case, outs), mo in zip(metas, ctx.get_model().batch(reqs)):
        if mo != outs: ctx.disagree("C04.run(cache)", case, [len(o) for o in outs], [len(o) for o in mo])

class Flaky:
    """an upstream that raises at position `at` during its first `times` iterations (None: always)"""
    def __init__(self, items, at, times): self.items, self.at, self.times, self.iters = items, at, times, 0
    def __iter__(self):
        self.iters += 1; bad = self.times is None or self.iters <= self.times
        for i, x in enumerate(self.items):
            if bad and i == self.at: raise RuntimeError("the source failed at item %d" % i)
            yield x

def failing_source(ctx, n_cases):
    """a read that FAILS (the source raises part-way) is not a complete read: whatever is read afterwards through the same cache is either the whole sequence or
    another failure - never, silently, the part that had been cached when the source failed"""
    import coba.pipes.filters as P
    import coba.environments.filters as EF
    rng = ctx.rng
    for _ in range(n_cases):
        N = rng.choice([3, 7, 26, 40, 60]); ns = rng.choice([1, 2, 5, 25]); at = rng.randrange(0, N); times = rng.choice([1, 1, 2, None])
        env_level = rng.random() < 0.3
        src = list(range(100, 100 + N)); hist = [rng.choice([None, None, None, 1, N // 2]) for _ in range(rng.randrange(2, 6))]
        case = dict(what="the source raises part-way", n_slice=ns, N=N, fails_at=at, failing_iterations=times, history=hist, environment_cache=env_level)
        ctx.count("cache-failing-source", repr(case), True)
        flt = EF.Cache(ns) if env_level else P.Cache(ns)
        up = Flaky([{"id": x} for x in src] if env_level else src, at, times)
        for step, k in enumerate(hist):
            got = []
            try:
                it = iter(flt.filter(up))
                for x in (it if k is None else islice(it, k)): got.append(x["id"] if env_level else x)
                del it
            except RuntimeError: continue          # a failure is reported: fine
            except Exception as e:
                ctx.fail(["cache", "raises", errname(e), "failing-source"], "Cache raised %s on %s" % (errname(e), case), case); break
            exp = src if k is None else src[:k]
            if got != exp:
                ctx.fail(["cache", "truncated-after-failure"], "read #%d through the cache gave %d items without any error, the sequence has %d (the source had failed at item %d during an earlier read)" % (step, len(got), len(exp), at), case); break

class Faulty:
    """an upstream whose iterators raise when they are asked for item `fail_at` (set per read by the harness; None = healthy)"""
    def __init__(self, items): self.items, self.fail_at = items, None
    def __iter__(self):
        for i, x in enumerate(self.items):
            if self.fail_at == i: raise RuntimeError("the source failed at item %d" % i)
            yield x

def cache_events(ctx, n_cases):
    """one Cache object driven through a history of events - complete reads, reads abandoned after k items, reads during which the source raises at item f,
    replacement by an unpickled copy - next to the extracted model of exactly these events (C04.ModelOps.run_ops)"""
    import pickle
    import coba.pipes.filters as P
    import coba.environments.filters as EF
    rng = ctx.rng
    reqs, metas = [], []
    for _ in range(n_cases):
        N = rng.choice([0, 1, 3, 7, 26, 40]); ns = rng.choice([1, 2, 5, 25]); env_level = rng.random() < 0.3
        src = list(range(100, 100 + N)); evs = []
        for _ in range(rng.randrange(1, 7)):
            k = rng.random()
            if k < 0.45: evs.append([0] if rng.random() < 0.6 else [0, rng.choice([0, 1, 2, N // 2, N, 26])])
            elif k < 0.8: evs.append([1, rng.randrange(0, N + 2)])
            else: evs.append([2])
        case = dict(what="cache events", n_slice=ns, N=N, events=evs, environment_cache=env_level)
        ctx.count("cache-events", repr(case), N >= 2 and len(evs) >= 2)
        flt = EF.Cache(ns) if env_level else P.Cache(ns)
        up = Faulty([{"id": x} for x in src] if env_level else src)
        outs = []; bad = None
        for ev in evs:
            if ev[0] == 2:
                try: flt = pickle.loads(pickle.dumps(flt)); outs.append([])
                except Exception as e: bad = (["cache", "raises", errname(e), "pickle"], "pickling the Cache raised %s" % errname(e)); break
                continue
            up.fail_at = ev[1] if ev[0] == 1 else None
            got = []; raised = False
            try:
                it = iter(flt.filter(up))
                for x in (islice(it, ev[1]) if (ev[0] == 0 and len(ev) == 2) else it): got.append(x["id"] if env_level else x)
                del it
            except RuntimeError: raised = True
            except Exception as e: bad = (["cache", "raises", errname(e), "events"], "Cache raised %s" % errname(e)); break
            outs.append(got)
            exp = src if ev == [0] else src[:ev[1]] if ev[0] == 0 else None
            if ev[0] == 0 and (raised or got != exp): bad = (["cache", "wrong-read", "after-events"], "event %d of %s: the read gave %d items%s, the source has %d" % (len(outs) - 1, evs, len(got), " and raised" if raised else "", len(src))); break
            if ev[0] == 1 and (got != src[:len(got)] or (not raised and got != src)): bad = (["cache", "wrong-read", "failing-read"], "event %d of %s: a failing read yielded %r" % (len(outs) - 1, evs, got[:8])); break
        up.fail_at = None
        if bad: ctx.fail(bad[0], bad[1] + " on %s" % case, case); continue
        reqs.append((4, [ns, src, evs, 1])); metas.append((case, outs))
    for (case, outs), mo in zip(metas, ctx.get_model().batch(reqs)):
        if mo != outs: ctx.disagree("C04.run(cache events)", case, [len(o) for o in outs], [len(o) for o in mo])

def held_params_law(ctx, n_cases):
    """a supervised source whose params is a dict the source (or the caller) keeps: constructing and reading SupervisedSimulations over it never changes that dict, and each
    simulation reports the same params at every look-up - whatever is read from its siblings over the same source in between"""
    from coba.pipes import IdentitySource
    from coba.environments import SupervisedSimulation
    rng = ctx.rng
    for _ in range(n_cases):
        n = rng.choice([1, 3, 5]); rows = [([float(i), float(rng.randrange(5))], rng.randrange(1, 4)) for i in range(n)]
        meta = {"source": "rows", "version": rng.randrange(9)}; source = IdentitySource(rows, meta)
        views = [rng.choice(["c", "r"]) for _ in range(rng.choice([1, 2, 3]))]
        case = dict(what="a source whose params dict is held by the caller", rows=repr(rows), params=dict(meta), label_types=views)
        ctx.count("held-params", repr(case), len(views) >= 2)
        try:
            envs = [SupervisedSimulation(source, None, lt) for lt in views]
            held = copy.deepcopy(meta); rows0 = copy.deepcopy(rows); seen = {}
            for step in range(rng.choice([2, 4, 6])):
                k = rng.randrange(len(envs)); part = rng.random() < 0.3
                it = iter(envs[k].read())
                got = [canon(x) for x in (islice(it, 1) if part else it)]
                del it
                if meta != held or rows != rows0:
                    ctx.fail(["reread", "caller-data-modified", "source-params"], "reading view %d (%s) changed the dict the source holds: %r -> %r" % (k, views[k], held, meta), case); break
                if not part:
                    p = dict(envs[k].params)
                    if k in seen and seen[k] != (p, got): ctx.fail(["reread", "params-change", "held-params"], "view %d (%s) reported params %r and now %r (or other interactions) after reads of its siblings" % (k, views[k], seen[k][0], p), case); break
                    seen[k] = (p, got)
                for j, (p0, _) in seen.items():
                    if dict(envs[j].params) != p0: ctx.fail(["reread", "params-change", "held-params"], "view %d (%s) reported params %r, after a read of view %d it reports %r" % (j, views[j], p0, k, dict(envs[j].params)), case); break
                else: continue
                break
        except Exception as e:
            ctx.fail(["reread", "raises", errname(e), "held-params"], "raised %s: %s on %s" % (errname(e), str(e)[:100], case), case)

def corpus(ctx):
    """fixed finding: logged Shuffle read partially, then fully"""
    import coba
    from coba.learners import RandomLearner
    ctx.count("corpus", "logged-shuffle-partial")
    env = coba.Environments.from_linear_synthetic(10, n_actions=3, seed=1).logged(RandomLearner(1)).shuffle(1)[0]
    ref = read_all(coba.Environments.from_linear_synthetic(10, n_actions=3, seed=1).logged(RandomLearner(1)).shuffle(1)[0])
    read_all(env, 1)
    p = dict(env.params)
    if read_all(env) != ref or p.get("shuffle_seed", p.get("shuffle")) not in (1, None) and 1 not in p.values():
        ctx.fail(["reread", "full-read-differs", "full"], "logged Shuffle(1): a read dropped after one item changed the next read / params %r" % p, dict(what="corpus logged-shuffle-partial"))

    # a kept (materialized / cached) grounded environment hands out the same feedback objects on every read: a long one read twice
    for how in ("materialize", "cache"):
        ctx.count("corpus", "grounded-" + how)
        try:
            e = coba.Environments.from_linear_synthetic(700, n_actions=3, n_context_features=1, n_action_features=0, seed=2).grounded(5, 3, 6, 3, 1)
            env = e.materialize()[0] if how == "materialize" else e.cache()[0]
            a = read_all(env); b = read_all(env)
            if a != b:
                i = next(i for i, (x, y) in enumerate(zip(a, b)) if x != y)
                ctx.fail(["reread", "full-read-differs", "grounded"], "a %sd grounded environment of 700 interactions read twice differs at interaction %d: feedbacks %r then %r" % (how, i, a[i].get("feedbacks"), b[i].get("feedbacks")), dict(what="corpus grounded-" + how))
        except Exception as ex:
            ctx.fail(["reread", "raises", errname(ex), "grounded"], "grounded corpus case raised %s: %s" % (errname(ex), str(ex)[:100]), dict(what="corpus grounded-" + how))

    # a save file that already holds many environments is continued by a second save of a superset: every environment reads back as itself
    ctx.count("corpus", "save-continued")
    work = tempfile.mkdtemp(prefix="c04s-", dir=os.path.join(VERIF, ".work"))
    try:
        path = os.path.join(work, "many.zip")
        mk = lambda k: coba.Environments.from_linear_synthetic(3, n_actions=2, n_context_features=1, n_action_features=0, seed=1).shuffle(list(range(1, k + 1)))
        refs = [read_all(e) for e in mk(13)]
        mk(11).save(path)
        back = mk(13).save(path)
        got = [read_all(e) for e in back]
        key = lambda rows: json.dumps(rows, sort_keys=True, default=str)
        if len(got) != 13 or sorted(map(key, got)) != sorted(map(key, refs)):
            bad = [i for i, g in enumerate(got) if key(g) not in set(map(key, refs))]
            ctx.fail(["reread", "save-continued"], "13 environments saved on top of a file holding 11 of them read back as %d environments; %s" % (len(got), "positions %s are not any of the saved environments" % bad if bad else "some environment is there twice and another is missing"), dict(what="corpus save-continued"))
    except Exception as ex:
        ctx.fail(["reread", "raises", errname(ex), "save-continued"], "continuing a save file raised %s: %s" % (errname(ex), str(ex)[:100]), dict(what="corpus save-continued"))
    finally:
        shutil.rmtree(work, ignore_errors=True)
    # reading an environment derived from materialized (held) data leaves the held data as it was
    ctx.count("corpus", "materialized-parent")
    try:
        m = coba.Environments.from_linear_synthetic(6, n_actions=3, n_context_features=1, n_action_features=0, seed=3).logged(RandomLearner(1)).materialize()
        before = read_all(m[0])
        for derived in (m.ope_rewards("IPS"), m.ope_rewards([None, "IPS"]), m.sparse(), m.repr("onehot", "onehot"), m.scale("min", "minmax"), m.noise(reward=(0, 1), seed=2)):
            for e in derived: read_all(e)
            after = read_all(m[0])
            if after != before:
                i = next(i for i, (x, y) in enumerate(zip(before, after)) if x != y)
                ctx.fail(["reread", "held-data-modified"], "after an environment derived from a materialized one was read, the materialized one reads differently at interaction %d: %r, before %r" % (i, after[i], before[i]), dict(what="corpus materialized-parent")); break
    except Exception as ex:
        ctx.fail(["reread", "raises", errname(ex), "materialized-parent"], "raised %s: %s" % (errname(ex), str(ex)[:100]), dict(what="corpus materialized-parent"))

def siblings(ctx, n_cases):
    """several environments built by one Environments call chain: what one of them yields does not depend on whether (or in which order) its siblings were read, nor on pickling"""
    import coba
    rng = ctx.rng
    for _ in range(n_cases):
        n = rng.choice([3, 5, 8])
        XS = [{k: rng.randrange(1, 6) for k in rng.sample("abcdefgh", rng.randrange(1, 4))} for _ in range(n)]
        Y = [rng.choice(["a", "b"]) for _ in range(n)]
        seeds = rng.sample(range(1, 30), rng.choice([2, 3]))
        tail = rng.choice(["dense-lookup", "dense-lookup", "dense-hashing", "scale", "impute", "repr", "none"])
        def build():
            e = coba.Environments.from_supervised(copy.deepcopy(XS), list(Y), "c").shuffle(list(seeds))
            if tail == "dense-lookup": e = e.dense(30, "lookup")
            elif tail == "dense-hashing": e = e.dense(64, "hashing")
            elif tail == "scale": e = e.dense(30, "lookup").scale("min", "minmax")
            elif tail == "impute": e = e.impute("mode")
            elif tail == "repr": e = e.repr("onehot", "onehot")
            return e
        order = list(range(len(seeds))); rng.shuffle(order)
        case = dict(X=XS, Y=Y, shuffle_seeds=seeds, tail=tail, read_order=order, what="siblings")
        ctx.count("siblings:" + tail, repr(case), True)
        try:
            refs = []
            for j in range(len(seeds)): refs.append(read_all(build()[j]))      # every environment read alone, from a pipeline of its own
            envs = build()
            for j in order:
                got = read_all(envs[j])
                if got != refs[j]: ctx.fail(["reread", "sibling-dependent", tail], "environment %d of %d reads differently after its siblings %s were read than when it is read alone" % (j, len(seeds), order[:order.index(j)]), case); break
                again = read_all(pickle.loads(pickle.dumps(envs[j])))
                if again != refs[j]: ctx.fail(["reread", "sibling-dependent", tail, "pickled"], "a pickled copy of environment %d (taken after reading siblings %s) reads differently than the environment read alone" % (j, order[:order.index(j) + 1]), case); break
        except Exception as e:
            ctx.fail(["reread", "raises", errname(e), "siblings"], "siblings case raised %s: %s" % (errname(e), str(e)[:100]), case)

def run(ctx):
    from coba.context import CobaContext, NullLogger
    CobaContext.logger = NullLogger()
    os.makedirs(os.path.join(VERIF, ".work"), exist_ok=True)
    corpus(ctx)
    siblings(ctx, ctx.n(60, 800))
    run_cache(ctx, ctx.n(400, 5000))
    failing_source(ctx, ctx.n(150, 2000))
    cache_events(ctx, ctx.n(300, 4000))
    held_params_law(ctx, ctx.n(60, 800))
    run_pipelines(ctx, ctx.n(400, 5000))

def replay(r):
    print(json.dumps(r, indent=1, default=str)[:3000]); return 0
