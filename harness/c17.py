"""C17 — Table: operation-sequence correspondence with the extracted model + list-of-rows scan oracle."""
from .common import *

LEVEL_TEXT = ("Coq theorems (C17/Props.v): on every sorted segment the rows selected by the bisect ranges of each operator (= != < <= > >= in !in), in order and multiplicity, "
              "equal the row-by-row scan; the scan is the Python-semantics predicate with Missing as the largest value; Table.index establishes the level-by-level invariant (= lexicographic order of the rows by index key) and only permutes rows; "
              "several keyword conditions select the union; where of where selects the conjunction (views keep the invariant); groupby partitions by the index prefix. "
              "Whole-table behaviour (insert incl. ragged dicts, index, where/where-of-where, groupby, copy) is tied by operation-sequence correspondence with the extracted model "
              "and checked against an independent list-of-rows oracle.")
TRUSTED = ["Coq 8.16.1 kernel (coqc)", "extraction ExtrOcamlBasic only + ocaml/driver.ml", "harness/c17.py (generator, oracle, canonicalisation Missing->None)",
           "modelled not verified: CPython bisect_left/bisect_right (modelled by their specification on sorted input), sorted() is a stable sort, View/SliceView/ListView index arithmetic (a view is modelled as the table of its rows)"]
ASSUMPTIONS = ["columns hold integers or Missing (comparable columns); 'match' and callables only use the scan path and are checked by the oracle only",
               "histories that mutate a table which has a live copy/view, or insert into an already indexed table, belong to two recorded findings and are classified separately"]
RULE = ("operation sequences (3-10 ops) on tables of 0-30 rows over columns a..e with values 0..3/Missing: insert rows, insert ragged dicts, index on 1-3 columns, where with every operator "
        "in positional / comparison= / {op:value} form (1-2 keywords), where-of-where, groupby, copy; non-trivial = contains a where/groupby on a non-empty table; distinct by op list")

def fingerprints():
    return fingerprint_defs('coba/results/core.py', ['MissingType', 'my_bisect_left', 'my_bisect_right', 'View', 'Table'])

NAMES = ["a", "b", "c", "d", "e"]
ID = {n: i + 1 for i, n in enumerate(NAMES)}
OPS = ["=", "!=", "<", "<=", ">", ">=", "in", "!in"]

def cellw(v): return [] if v is None else [v]

def gen_val(rng, missing_ok=True):
    k = rng.random()
    if missing_ok and k < 0.12: return None
    return rng.randrange(0, 4)

def gen_seq(rng):
    """list of ops; registers are table handles"""
    cols = NAMES[:rng.choice([1, 2, 2, 3, 0])]
    ops = []
    nregs = 1
    allow_alias = rng.random() < 0.12
    allow_stale = rng.random() < 0.12
    indexed = {0: False}; derived = {0: False}; parents = {}
    colsof = {0: list(cols)}
    def mutable(r):
        return allow_alias or not derived[r]
    if not cols:      # a table created without declared columns: its first insert brings them
        ds = [{kk: gen_val(rng, False) for kk in rng.sample(NAMES, rng.randrange(2, 4))} for _ in range(rng.randrange(1, 4))]
        ops.append(("insert_dicts", 0, ds))
        colsof[0] = sorted(set().union(*[d.keys() for d in ds]))
    for _ in range(rng.randrange(3, 11)):
        r = rng.randrange(nregs)
        k = rng.random()
        if k < 0.22 and mutable(r) and (allow_stale or not indexed[r]) and not parents.get(r) == "view":
            rows = [[gen_val(rng, rng.random() < 0.3) for _ in colsof[r]] for _ in range(rng.randrange(0, 7))]
            ops.append(("insert_rows", r, rows))
        elif k < 0.36 and mutable(r) and (allow_stale or not indexed[r]) and not parents.get(r) == "view":
            ds = []
            for _ in range(rng.randrange(1, 5)):
                ks = rng.sample(NAMES, rng.randrange(1, 4))
                ds.append({kk: gen_val(rng, False) for kk in ks})
            ops.append(("insert_dicts", r, ds))
            for kk in sorted(set().union(*[d.keys() for d in ds])):
                if kk not in colsof[r]: colsof[r].append(kk)
        elif k < 0.52 and mutable(r) and not parents.get(r) == "view":
            names = rng.sample(NAMES, rng.randrange(1, 4))
            ops.append(("index", r, names))
            if any(n in colsof[r] for n in names): indexed[r] = True
        elif k < 0.85:
            conds = []
            for kw in rng.sample(colsof[r], min(len(colsof[r]), rng.choice([1, 1, 1, 2]))):
                op = rng.choice(OPS)
                if op in ("in", "!in"):
                    arg = [rng.randrange(-1, 5) for _ in range(rng.randrange(0, 4))]
                    if rng.random() < 0.3 and arg: arg.append(arg[0])
                else:
                    arg = rng.choice([None, -1, 0, 1, 2, 3, 4]) if op in ("=", "!=") else rng.randrange(-1, 5)
                form = rng.choice(["dict", "dict", "plain"]) if not (op == "=" or op == "in") else rng.choice(["dict", "plain", "default"])
                conds.append((kw, op, arg, form))
            # 'plain' = comparison= parameter: only one operator per call
            plains = [c for c in conds if c[3] == "plain"]
            if len(plains) > 1 or (plains and any(c[3] == "default" for c in conds)):
                conds = [(kw, op, arg, "dict") for kw, op, arg, _ in conds]
            ops.append(("where", r, conds))
            indexed[nregs] = indexed[r]; derived[nregs] = True; derived[r] = True; parents[nregs] = "view"; colsof[nregs] = list(colsof[r]); nregs += 1
        elif k < 0.93:
            ops.append(("groupby", r, rng.randrange(0, 3)))
        else:
            ops.append(("copy", r))
            indexed[nregs] = indexed[r]; derived[nregs] = True; derived[r] = True; parents[nregs] = parents.get(r, "copy"); colsof[nregs] = list(colsof[r]); nregs += 1
    return cols, ops

def gen_big(rng):
    """larger, sparser tables: multi-keyword unions whose matches are few and far apart"""
    cols = NAMES[:3]
    rows = [[rng.randrange(0, 12) for _ in cols] for _ in range(rng.randrange(12, 45))]
    ops = [("insert_rows", 0, rows)]
    if rng.random() < 0.6: ops.append(("index", 0, rng.sample(cols, rng.randrange(1, 4))))
    nregs = 1
    for _ in range(rng.randrange(1, 4)):
        conds = []
        for kw in rng.sample(cols, rng.choice([1, 2, 2])):      # one keyword: the order of a multi-valued 'in' shows (values of one and two digits)
            op = rng.choice(["=", "in", "=", "in", "<", ">"])
            arg = [rng.randrange(0, 12) for _ in range(rng.choice([2, 2, 3, 4]))] if op == "in" else rng.randrange(0, 12)
            conds.append((kw, op, arg, "dict"))
        r = rng.randrange(nregs)
        ops.append(("where", r, conds)); nregs += 1
        if rng.random() < 0.5:
            kw = rng.choice(cols); ops.append(("where", nregs - 1, [(kw, rng.choice(OPS[:6]), rng.randrange(0, 12), "dict")])); nregs += 1
    return cols, ops

def wire(cols, ops):
    w = []
    for o in ops:
        if o[0] == "insert_rows": w.append([0, o[1], [[cellw(v) for v in row] for row in o[2]]])
        elif o[0] == "insert_dicts": w.append([1, o[1], [[[ID[k], cellw(v)] for k, v in d.items()] for d in o[2]]])
        elif o[0] == "index": w.append([2, o[1], [ID[n] for n in o[2]]])
        elif o[0] == "where":
            w.append([3, o[1], [[ID[kw], OPS.index(op), cellw(arg) if not isinstance(arg, list) else [], [cellw(v) for v in arg] if isinstance(arg, list) else []] for kw, op, arg, _ in o[2]]])
        elif o[0] == "groupby": w.append([4, o[1], o[2]])
        elif o[0] == "copy": w.append([5, o[1]])
    return [[ID[c] for c in cols], w]

def canon(v):
    from coba.results.core import Missing
    return None if (v is Missing or v is None) else v

def dump(t):
    return dict(cols=list(t.columns), idxs=list(t.indexes), rows=[[canon(v) for v in row] for row in t] if len(t.columns) else [])

def undump(m):
    inv = {v: k for k, v in ID.items()}
    return dict(cols=[inv[c] for c in m[0]], idxs=[inv[c] for c in m[1]], rows=[[un_opt(c) for c in r] for r in m[2]])

# ---- reference semantics (independent of the model): Missing is the largest value, equal only to itself/None
def r_lt(a, b):
    if a is None: return False
    if b is None: return True
    return a < b
def r_sat(op, arg, c):
    if op == "=": return c == arg
    if op == "!=": return c != arg
    if op == "<": return r_lt(c, arg)
    if op == "<=": return r_lt(c, arg) or c == arg
    if op == ">": return r_lt(arg, c)
    if op == ">=": return r_lt(arg, c) or c == arg
    if op == "in": return c in arg
    if op == "!in": return c not in arg

def key_of(row, cols, names):
    return tuple((1, 0) if row[cols.index(n)] is None else (0, row[cols.index(n)]) for n in names)

def run_impl(cols, ops, ctx, case):
    """runs the sequence on the implementation; applies the oracle after every op; returns canonical outputs"""
    from coba.results.core import Table, Missing
    regs = [Table(columns=list(cols))]
    outs = []
    tags = set()
    group = {0: 0}; indexed_reg = {0: False}
    for o in ops:
        t = regs[o[1]]
        before = dump(t)
        try:
            if o[0] in ("insert_rows", "insert_dicts", "index"):
                if sum(1 for g in group.values() if g == group[o[1]]) > 1: tags.add("alias")
            if o[0] == "insert_rows":
                if t.indexes and o[2]: tags.add("stale")
                t.insert([[Missing if v is None else v for v in row] for row in o[2]])
                out = dump(t)
                if "alias" not in tags and out["rows"] != before["rows"] + [list(r) for r in o[2]]:
                    ctx.fail(["insert", "rows"], "insert(rows) changed the table to %s" % out["rows"], case)
            elif o[0] == "insert_dicts":
                if t.indexes: tags.add("stale")
                t.insert([dict(d) for d in o[2]])
                out = dump(t)
                newcols = before["cols"] + sorted(set().union(*[d.keys() for d in o[2]]) - set(before["cols"]))
                exp = [r + [None] * (len(newcols) - len(before["cols"])) for r in before["rows"]] + [[d.get(c) for c in newcols] for d in o[2]]
                if "alias" not in tags and (out["cols"] != newcols or out["rows"] != exp):
                    ctx.fail(["insert", "dicts"], "ragged insert gave %s / %s, expected %s / %s" % (out["cols"], out["rows"], newcols, exp), case)
            elif o[0] == "index":
                t.index(*o[2])
                out = dump(t)
                names = [n for n in o[2] if n in out["cols"]]
                if "alias" not in tags and "stale" not in tags:
                    if sorted(map(repr, out["rows"])) != sorted(map(repr, before["rows"])):
                        ctx.fail(["index", "not-permutation"], "index%s changed the multiset of rows" % (o[2],), case)
                    ks = [key_of(r, out["cols"], [n for n in out["idxs"]]) for r in out["rows"]]
                    if ks != sorted(ks):
                        ctx.fail(["index", "not-sorted"], "rows not sorted by %s after index: %s" % (out["idxs"], out["rows"]), case)
                    if names and out["idxs"] != names:
                        ctx.fail(["index", "indexes"], "indexes %s after index%s" % (out["idxs"], o[2]), case)
            elif o[0] == "where":
                kwargs, comparison = {}, None
                for kw, op, arg, form in o[2]:
                    if form == "default": kwargs[kw] = arg
                    elif form == "dict": kwargs[kw] = {op: arg}
                    else: kwargs[kw] = arg; comparison = op
                v = t.where(comparison=comparison, **kwargs) if comparison else t.where(**kwargs)
                regs.append(v); group[len(regs) - 1] = group[o[1]]
                out = dump(v)
                exp = [r for r in before["rows"] if any(r_sat(op, arg, r[before["cols"].index(kw)]) for kw, op, arg, _ in o[2])]
                if out["rows"] != exp:
                    sig = ["where", "stale-index-after-insert"] if "stale" in tags else (["where", "copy-shares-data"] if "alias" in tags else
                          ["where", "wrong-rows", "+".join(sorted(set(op for _, op, _, _ in o[2]))), "indexed" if any(kw in before["idxs"] for kw, _, _, _ in o[2]) else "scan"])
                    ctx.fail(sig, "where(%s) on %s (indexes %s) -> %s, a row-by-row scan gives %s" % (o[2], before["rows"], before["idxs"], out["rows"], exp), case)
            elif o[0] == "groupby":
                if o[2] >= len(t.indexes): out = []
                else:
                    out = [[[canon(x) for x in g[0]], g[1]] for g in t.groupby(o[2], "count")]
                    if before["rows"] and "stale" not in tags and "alias" not in tags:
                        pre = before["idxs"][:o[2]]
                        exp = []
                        for r in before["rows"]:
                            k = [r[before["cols"].index(n)] for n in pre]
                            if exp and exp[-1][0] == k: exp[-1][1] += 1
                            else: exp.append([k, 1])
                        if out != exp or len(set(map(repr, [g[0] for g in exp]))) != len(exp):
                            ctx.fail(["groupby"], "groupby(%d) -> %s, expected %s" % (o[2], out, exp), case)
            elif o[0] == "copy":
                c = t.copy(); regs.append(c); group[len(regs) - 1] = group[o[1]]
                out = dump(c)
                if out != before: ctx.fail(["where", "copy-shares-data"] if "alias" in tags else ["copy"], "copy differs from the original", case)
        except Exception as e:
            out = ["EXC", errname(e)]
            sig = ["raises", errname(e), o[0]]
            if "stale" in tags: sig = ["where", "stale-index-after-insert"]
            elif "alias" in tags: sig = ["where", "copy-shares-data"]
            ctx.fail(sig, "%s raised %s: %s" % (o[0], errname(e), str(e)[:100]), case)
            outs.append(out); break
        outs.append(out)
    return outs, tags

def check(ctx, seqs, kind):
    model = ctx.get_model()
    mouts = model.batch([(17, wire(c, o)) for c, o in seqs])
    for (cols, ops), mo in zip(seqs, mouts):
        case = dict(columns=cols, ops=[list(o) for o in ops])
        nf = len(ctx.failures) + len(ctx.known_hit)
        outs, tags = run_impl(cols, ops, ctx, case)
        nontrivial = any(o[0] in ("where", "groupby") for o in ops)
        ctx.count(kind, repr(case), nontrivial)
        for o in ops:
            ctx.dist["op:" + o[0]] = ctx.dist.get("op:" + o[0], 0) + 1
            if o[0] == "where":
                for _, op, _, form in o[2]: ctx.dist["where:" + op] = ctx.dist.get("where:" + op, 0) + 1
        for tg in tags: ctx.dist["tag:" + tg] = ctx.dist.get("tag:" + tg, 0) + 1
        ctx.sample(dict(case=case, impl=str(outs)[:300]), cap=4)
        if tags or (len(ctx.failures) + len(ctx.known_hit)) != nf: continue      # defect classes: oracle only
        for i, (o, got) in enumerate(zip(ops, outs)):
            m = mo[i]
            mm = [[[un_opt(c) for c in g[0]], g[1]] for g in m] if o[0] == "groupby" else undump(m)
            if o[0] == "groupby" and o[2] >= 0 and got == [] and mm != []:
                # groupby beyond the number of index columns raises IndexError in the code; the harness does not call it
                continue
            if mm != got:
                ctx.disagree("C17.run:" + o[0], dict(case, step=i), str(got)[:500], str(mm)[:500]); break

def corpus():
    """replays of the fixed findings and small boundary cases (run first)"""
    cs = []
    cs.append((["a", "b"], [("insert_rows", 0, [[2, 1], [1, 2], [2, 3]]), ("index", 0, ["a"]), ("where", 0, [("a", "in", [2, 2], "default")])]))
    cs.append((["a", "b"], [("index", 0, ["a"]), ("where", 0, [("a", "=", 1, "default")])]))
    cs.append((["a", "b"], [("insert_rows", 0, [[2, 1], [1, 2]]), ("where", 0, [("a", "!in", [2], "dict")]), ("index", 0, ["a"]), ("where", 0, [("a", "!in", [2], "dict")])]))
    cs.append((["a"], [("insert_dicts", 0, [{"a": 1}, {"b": 2}]), ("where", 0, [("b", "<=", 5, "dict")]), ("where", 0, [("b", ">=", 1, "dict")]), ("index", 0, ["b"]), ("where", 0, [("b", "=", None, "default")]), ("where", 0, [("b", "<=", 5, "dict")])]))
    cs.append((["a", "b"], [("insert_rows", 0, [[3, 1], [1, 2], [2, 3], [0, 0]]), ("where", 0, [("a", "<", 1, "dict"), ("b", "=", 1, "default")])]))
    for op in OPS:
        for arg in ([[], [0], [1, 3], [4, -1], [1, 1, 2]] if op in ("in", "!in") else [-1, 0, 1, 3, 4]):
            cs.append((["a", "b"], [("insert_rows", 0, [[1, 0], [3, 1], [1, 2], [0, 3], [3, 4], [1, 5]]), ("insert_dicts", 0, [{"b": 6}]), ("index", 0, ["a", "b"]),
                                    ("where", 0, [("a", op, arg, "dict")]), ("where", 0, [("b", op, arg, "dict")]), ("where", 1, [("b", op, arg, "dict")]), ("groupby", 0, 1)]))
    return cs

def replay_known(ctx):
    from coba.results.core import Table
    for k in ctx.known:
        if k.get("status") != "open": continue
        r = k["replay"]
        if r["kind"] == "stale-index":
            t = Table(columns=["a", "b"]).insert([[3, 1], [1, 2], [2, 3]]).index("a"); t.insert([[0, 9]])
            if [tuple(x) for x in t.where(a=0)] != [(0, 9)]: ctx.known_hit.setdefault(k["key"], k["what"])
        if r["kind"] == "copy-index":
            t = Table(columns=["a", "b"]).insert([[3, 1], [1, 2], [2, 3]]).index("a"); c = t.copy(); c.index("b")
            if [tuple(x) for x in t.where(a=1)] != [(1, 2)]: ctx.known_hit.setdefault(k["key"], k["what"])

def failed_index_law(ctx):
    """an index() call that FAILS (on a read-only view; on a column that cannot be ordered) and is survived by the caller leaves the table as it was:
    every later where still returns what a row-by-row scan returns"""
    from coba.results.core import Table, Missing
    rng = ctx.rng
    for _ in range(ctx.n(60, 600)):
        n = rng.randrange(2, 9)
        rows = [[rng.randrange(0, 4), rng.randrange(0, 4), rng.choice([0, 1, 2, None])] for _ in range(n)]
        pre = rng.choice([[], ["a"], ["b"], ["b", "a"]]); how = rng.choice(["view", "unorderable", "unorderable-view"])
        case = dict(what="index() that fails", rows=rows, indexed_before=pre, how=how); ctx.count("failed-index:" + how, repr(case), True)
        try:
            t = Table(columns=["a", "b", "c"]); t.insert([[Missing if v is None else v for v in r] for r in rows])
            if pre: t.index(*pre)
            target = t
            if "view" in how: target = t.where(a={"<=": 3})
            cols = ["c", "a"] if how.startswith("unorderable") else [rng.choice(["a", "b"])] + (["c"] if rng.random() < 0.3 else [])
            failed = None
            try: target.index(*cols)
            except Exception as e: failed = errname(e)
            now = [[canon(x) for x in r] for r in target]
            for kw, arg in (("a", rng.randrange(0, 4)), ("b", rng.randrange(0, 4)), ("a", [rng.randrange(0, 4), rng.randrange(0, 4)]), ("c", rng.choice([0, 1, 2]))):
                got = [[canon(x) for x in r] for r in target.where(**{kw: arg})]
                j = "abc".index(kw)
                exp = [r for r in now if (r[j] in arg if isinstance(arg, list) else r[j] == arg)]
                if got != exp:
                    ctx.fail(["where", "wrong-rows", "after-failed-index" if failed else "after-index"], "index%s %s; where(%s=%r) on rows %s (indexes %s) -> %s, a scan gives %s" % (
                        tuple(cols), "raised %s" % failed if failed else "succeeded", kw, arg, now, list(target.indexes), got, exp), case); break
        except Exception as e:
            ctx.fail(["raises", errname(e), "failed-index-law"], "raised %s: %s on %s" % (errname(e), str(e)[:100], case), case)

def run(ctx):
    failed_index_law(ctx)
    check(ctx, corpus(), "corpus")
    check(ctx, [gen_seq(ctx.rng) for _ in range(ctx.n(1500, 20000))], "random-seq")
    check(ctx, [gen_big(ctx.rng) for _ in range(ctx.n(300, 4000))], "big-sparse")
    replay_known(ctx)

def replay(r):
    class C:  # minimal ctx
        failures = []; known_hit = {}
        def fail(self, sig, what, case): self.failures.append((sig, what)); return "new"
    c = C(); case = r["case"]
    ops = [tuple(o) for o in case["ops"]]
    ops = [(o[0], o[1], [tuple(x) for x in o[2]]) if o[0] == "where" else o for o in ops]
    outs, tags = run_impl(case["columns"], ops, c, case)
    for f in c.failures: print(f)
    return 1 if c.failures else 0
