"""Composes /verif/DESIGN.md from docs/design_head.md, generated sections 5-7 and docs/design_tail.md."""
import glob, json, os, re, subprocess
from harness import common
from harness.gen_manifest import CLAIMED, PROPS

V = common.VERIF

def theorems(pid):
    p = os.path.join(V, "coq", "theories", pid, "Props.v")
    if not os.path.exists(p): return []
    src = open(p).read()
    return re.findall(r"^(?:Theorem|Corollary)\s+(\w+)", src, re.M)

def wrap(text, width=116, indent=""):
    out, line = [], indent
    for w in text.split():
        if len(line) + len(w) + 1 > width and line.strip():
            out.append(line.rstrip()); line = indent
        line += w + " "
    if line.strip(): out.append(line.rstrip())
    return "\n".join(out)

def section5(known, seeded):
    fps = json.load(open(os.path.join(V, "harness", "fingerprints.json")))
    out = ["--------------------------------------------------------------------------------------------------------------------\n",
           "## 5. Per-property design (as built)\n",
           "For each property: what the theorems say (`coq/theories/Cxx/Props.v`; C01 and C03 share `theories/Exp`), how the model is tied to the code, what is trusted / only modelled,",
           "and the functions whose `ast` fingerprints escalate the run when they change. The same texts are the `level_claimed` / `level_note` of `MANIFEST.json`.\n"]
    for p in PROPS:
        pid = p["id"]; c = CLAIMED.get(pid)
        out.append("### %s — %s\n" % (pid, p["title"]))
        if not c:
            out.append("not claimed (see §9).\n"); continue
        out.append("**Technique** " + c["technique"] + "\n")
        out.append("**Theorems** (`%s`): %s\n" % ("theories/%s/Props.v" % pid, ", ".join("`%s`" % t for t in theorems(pid)) or "-"))
        out.append(wrap("**Claim** " + c["text"]) + "\n")
        out.append(wrap("**Trusted / modelled not verified / partial** " + c["note"]) + "\n")
        tr = os.path.exists(os.path.join(V, "harness", "translate", pid.lower() + ".py"))
        out.append("**Tie** %sextracted-model correspondence and oracle in `harness/%s.py`%s.\n" % (
            "translator `harness/translate/%s.py` (regenerated on every run) + " % pid.lower() if tr else "", pid.lower(),
            " (+ `harness/expcore.py`)" if pid in ("C01", "C03") else ""))
        fns = sorted(k.replace("coba/", "") for k in fps.get(pid, {}))
        out.append(wrap("**Fingerprinted** " + ", ".join(fns)) + "\n")
        opens = [k for k in known if k["property"] == pid and k["status"] == "open"]
        nfix = sum(1 for k in known if k["property"] == pid and k["status"] == "fixed")
        out.append("**Findings** %d repaired, %d open%s. **Seeded changes** %s.\n" % (
            nfix, len(opens), (": " + "; ".join(k["key"] for k in opens)) if opens else "",
            ", ".join("%s (%s)" % (m["id"], m.get("caught", "?")) for m in seeded if m["property"] == pid) or "none"))
    return "\n".join(out)

def section6(known):
    out = ["\n--------------------------------------------------------------------------------------------------------------------\n",
           "## 6. Genuine defects of VowpalWabbit/coba found on the pinned tree\n",
           "Each was shown against the real code with a concrete input (the `replay` field of `known_findings.json`). A defect whose repair is small and safe is",
           "one `fix:` commit in `/repo` (the pinned 1840-test suite passes with every one of them: `./tools_baseline.sh`), recorded as `fixed`;",
           "the check passes on the repaired tree without a KNOWN-FINDING line and reports the violation again if it returns (verified for every fix whose reverse patch",
           "still applies by reverting it and running the check). The others are `open`: the check prints one `KNOWN-FINDING` line per entry and exits 0; a violation whose",
           "signature does not match is still reported.\n",
           "### Open findings\n"]
    for k in known:
        if k["status"] == "open":
            out.append(wrap("* **%s** (`%s`, signature %s) — %s" % (k["property"], k["key"], k["signature"], k["what"]), indent="  ")[2:])
            out[-1] = "* " + out[-1][2:] if out[-1].startswith("  ") else out[-1]
    out.append("\nWhy they are not repaired: C05 (`random()` can equal `max` through binary64 rounding at one state: a repair changes every stream or adds a re-draw — a maintainer's decision); "
               "C17 (stale index after insert, `copy()` sharing column lists: repairs change the Table's cost model / API contract); C04 (writing the params after the read would make `save()` on an existing file of an unread supervised environment report a mismatch: the two sides of that comparison have to change together); C15 (an ambiguous single-action PMF column format); "
               "C07/C02 (an evaluation with zero rows has no representation in the packed record: needs a format change); C12 (a quoted `'?'` loses its quoting inside the csv module; the "
               "tab/comma ambiguity is inherent to delimiter sniffing); C08 (`None` is the pill of the output queue: needs a sentinel object that survives pickling).\n")
    out.append("### Repaired (`fix:` commits in `/repo`, oldest first)\n")
    out.append("| property | commit | what failed |\n|---|---|---|")
    order = subprocess.run(["git", "-C", common.REPO, "log", "--reverse", "--format=%h %s"], capture_output=True, text=True).stdout.splitlines()
    pos = {l.split()[0]: i for i, l in enumerate(order)}
    fixed = [k for k in known if k["status"] == "fixed"]
    fixed.sort(key=lambda k: pos.get(k.get("commit", "")[:7], 10 ** 6))
    for k in fixed:
        what = re.sub(r"^fixed: property=\w+ \w+ ", "", k["what"]).replace("|", "\\|").replace("\n", " ")
        out.append("| %s | `%s` | %s |" % (k["property"], k.get("commit", "?"), what[:330]))
    listed = {k.get("commit", "")[:7] for k in fixed}
    extra = [l for l in order if " fix:" in " " + l.split(" ", 1)[1] and l.split()[0][:7] not in listed]
    if extra:
        out.append("\nFurther `fix:` commits (several defects share one known-findings entry or were found while repairing a neighbour):\n")
        for l in extra: out.append("* `%s` %s" % (l.split()[0], l.split(" ", 1)[1]))
    return "\n".join(out)

def section7(seeded):
    out = ["\n--------------------------------------------------------------------------------------------------------------------\n",
           "## 7. Seeded changes: which check catches which\n",
           "Fresh sub-agents were given only the text of one property and a scratch git worktree of `/repo` (nothing from `/verif`) and asked for changes that break the property while the pinned",
           "test-suite still passes, with a demonstration. Each kept change was confirmed by me in the scratch worktree (`tools_confirm_mutant.sh`: patch applies, demo passes without and fails with it,",
           "all 1840 stable tests pass with it) and is stored as `seeded/<id>/{patch.diff,demo.py,meta.json}`. `tools_seeded_matrix.sh` applies each to `/repo` (`git apply`), runs the property's quick check",
           "and restores the tree (`git checkout -- .`); the table is its last result. Where a later `fix:` commit touched the same lines the change was ported by hand (`patch.diff` is the ported",
           "version; the agent's original is `original.diff`) or, when the repair made the change harmless, marked obsolete.\n",
           "| id | files | what the change does | result of `./check` (quick) | strengthening it prompted |\n|---|---|---|---|---|"]
    for m in seeded:
        out.append("| %s | %s | %s | %s | %s |" % (m["id"], ", ".join(m.get("files", [])), m.get("summary", "").replace("|", "\\|")[:260], m.get("caught", "?"), m.get("strengthened", "").replace("|", "\\|")))
    return "\n".join(out)

def main():
    known = json.load(open(os.path.join(V, "known_findings.json")))["findings"]
    seeded = []
    for f in sorted(glob.glob(os.path.join(V, "seeded", "*", "meta.json"))): seeded.append(json.load(open(f)))
    head = open(os.path.join(V, "docs", "design_head.md")).read()
    nfix = len([l for l in subprocess.run(["git", "-C", common.REPO, "log", "--format=%s"], capture_output=True, text=True).stdout.splitlines() if l.startswith("fix:")])
    nopen = sum(1 for k in known if k["status"] == "open")
    head = head.replace("{N_FIXED}", str(nfix)).replace("{N_OPEN}", str(nopen)).replace("{N_DEFECTS}", str(nfix + nopen))
    tail = open(os.path.join(V, "docs", "design_tail.md")).read()
    open(os.path.join(V, "DESIGN.md"), "w").write(head + "\n" + section5(known, seeded) + section6(known) + section7(seeded) + tail)
    print("DESIGN.md written: %d fixes, %d open findings, %d seeded changes" % (nfix, nopen, len(seeded)))
if __name__ == "__main__": main()
