"""C13 — lazy row views: correspondence with the extracted model (dense) + eager list/dict oracle (dense and sparse, lazy ARFF rows)."""
from itertools import islice
from .common import *

LEVEL_TEXT = ("Coq theorem lazy_eq_eager (C13/Props.v): for every well-formed pipeline of HeadRows/EncodeRows/DropRows/LabelRows stages and every dense row, iteration, length, positional access, "
              "header-name access and .headers of the lazy view equal the eager list computation (representation invariant by induction over the pipeline); feats/label split; load-once rows are "
              "transparent under any access sequence. Sparse rows (sparse_views_are_dictionaries, sparse_stage_semantics): every stack of EncodeSparse/DropSparse/HeadSparse/LabelSparse wrappers reads like one dictionary "
              "(keys without repeats, getitem defined exactly on keys, items the graph of getitem, len the number of keys) and each stage is the eager dict operation. The models' views are compared with the real row classes on generated tables, pipelines and access sequences; an independent eager oracle "
              "also covers sparse rows, LazyDense/LazySparse with missing markers, equality and copy. EncodeCatRows('onehot') over a dense row (in-place pop/extend/slice-assignment editing) is proved to be the in-place replacement by one-hot entries and compared with the real filter.")
TRUSTED = ["Coq 8.16.1 kernel (coqc)", "extraction + ocaml/driver.ml", "harness/c13.py (generator, eager oracle on plain lists/dicts)",
           "modelled not verified: LazySparse / LazyDense missing-value handling, row predicates and EncodeCatRows beyond the flat one-hot form of an un-nested dense row are oracle-only; encoders are drawn from {identity, +z, *z, const} in the model; sparse header maps are renamings k -> k+shift"]
ASSUMPTIONS = ["keys are non-negative positions in range or header names present in the eager table", "header names are distinct; one encoder per column"]
RULE = ("tables of 1-4 rows x 1-5 columns; pipelines of 0-4 stages (headers, encoders as list or mapping, drops by position/name incl. duplicated, unknown and out-of-range entries, row predicates, label by position/name); "
        "access sequences mixing getitem by position/name, full and partial iteration, len, ==, feats/label; non-trivial = at least one stage and 2+ columns")

NAMES = ["a", "b", "c", "d", "e"]
def fingerprints():
    return fingerprint_defs('coba/pipes/rows.py', ['LazyDense', 'HeadDense', 'HeadRows', 'EncodeDense', 'EncodeRows', 'DropOne', 'KeepDense', 'DropRows', 'LabelDense', 'LabelRows', 'LazySparse', 'HeadSparse', 'EncodeSparse', 'DropSparse', 'LabelSparse'])

class Enc:
    def __init__(self, kind, z=0): self.kind, self.z = kind, z
    def __call__(self, v):
        return v if self.kind == 0 else (v + self.z if self.kind == 1 else (v * self.z if self.kind == 2 else self.z))
    def __repr__(self): return "Enc(%d,%d)" % (self.kind, self.z)

def gen_dense(rng):
    ncol = rng.randrange(1, 6); nrow = rng.randrange(1, 5)
    table = [[rng.randrange(-5, 20) for _ in range(ncol)] for _ in range(nrow)]
    stages = []
    has_hdr = False; ncur = ncol; names = None
    for _ in range(rng.randrange(0, 5)):
        k = rng.random()
        if k < 0.35 and not has_hdr:
            names = rng.sample(NAMES, ncur); stages.append(("head", names)); has_hdr = True
        elif k < 0.6:
            encs = [Enc(rng.randrange(4), rng.randrange(1, 4)) for _ in range(ncur)]
            form = "list" if not has_hdr or rng.random() < 0.5 else "map"
            stages.append(("encode", encs, form))
        elif k < 0.9 and ncur >= 1:
            pos = [rng.randrange(0, ncur + 2) for _ in range(rng.randrange(0, 3))]
            nms = []
            if has_hdr:
                for _ in range(rng.randrange(0, 3)): nms.append(rng.choice(names + ["zz"]))
            pred = None
            if rng.random() < 0.4:      # a row predicate: it is asked about the row as it enters this stage
                u = rng.random()
                pred = ("pos", rng.randrange(ncur), rng.randrange(2)) if u < 0.5 or not has_hdr else ("name", rng.choice(names), rng.randrange(2))
                if u > 0.85: pred = ("sum", 0, rng.randrange(2))
            stages.append(("drop", pos, nms, pred))
            keep = [i for i in range(ncur) if i not in pos and not (has_hdr and names[i] in nms)]
            if has_hdr: names = [names[i] for i in keep]
            ncur = len(keep)
    if ncur >= 1 and rng.random() < 0.5:
        ind = rng.randrange(ncur)
        stages.append(("label", names[ind] if has_hdr and rng.random() < 0.5 else ind, ind))
    return table, stages

def eager_dense(row, stages):
    vals, names = list(row), None
    label = None
    for s in stages:
        if s[0] == "head": names = list(s[1])
        elif s[0] == "encode": vals = [e(v) for e, v in zip(s[1], vals)]
        elif s[0] == "drop":
            if len(s) > 3 and s[3] is not None:
                kind, key, par = s[3]
                x = vals[key] if kind == "pos" else (vals[names.index(key)] if kind == "name" else sum(vals))
                if x % 2 == par: return None      # the row predicate drops this row
            keep = [i for i in range(len(vals)) if i not in s[1] and not (names is not None and names[i] in s[2])]
            vals = [vals[i] for i in keep]
            if names is not None: names = [names[i] for i in keep]
        elif s[0] == "label":
            ind = s[2]; label = vals[ind]
            vals = vals[:ind] + vals[ind + 1:]
            if names is not None: names = names[:ind] + names[ind + 1:]
    return vals, names, label

def build_dense(table, stages):
    import coba.pipes.rows as R
    rows = [list(r) for r in table]
    cur_names = None
    for s in stages:
        if s[0] == "head": rows = R.HeadRows(list(s[1])).filter(rows); cur_names = list(s[1])
        elif s[0] == "encode":
            if s[2] == "list": rows = R.EncodeRows(list(s[1])).filter(rows)
            else: rows = R.EncodeRows({n: e for n, e in zip(cur_names, s[1])}).filter(rows)
        elif s[0] == "drop":
            pred = None
            if len(s) > 3 and s[3] is not None:
                kind, key, par = s[3]
                pred = (lambda r, key=key, par=par: r[key] % 2 == par) if kind != "sum" else (lambda r, par=par: sum(r) % 2 == par)
            rows = R.DropRows(list(s[1]) + list(s[2]), pred).filter(rows)
            if cur_names is not None: cur_names = [n for i, n in enumerate(cur_names) if i not in s[1] and n not in s[2]]
        elif s[0] == "label": rows = R.LabelRows(s[1], "c").filter(rows)
    return list(rows)

def wire_dense(row, stages, positions, names):
    ws = []
    for s in stages:
        if s[0] == "head": ws.append([0, [ord(n) for n in s[1]]])
        elif s[0] == "encode": ws.append([1, [[e.kind, e.z] for e in s[1]]])
        elif s[0] == "drop": ws.append([2, list(s[1]), [ord(n[0]) if n != "zz" else 999 for n in s[2]]])
        elif s[0] == "label": ws.append([3, s[2]])
    return [list(row), ws, positions, [ord(n) for n in names]]

def observe(ctx, view, evals, enames, case, accesses_rng):
    """all access kinds on one row object, in a random order, some repeated; returns dict of observations or records a failure"""
    obs = {}
    order = ["len", "iter", "getpos", "getname", "partial", "eq", "iter", "getpos", "len"]
    accesses_rng.shuffle(order)
    for a in order:
        try:
            if a == "len": v = len(view)
            elif a == "iter": v = list(view)
            elif a == "partial": it = iter(view); v = list(islice(it, max(1, len(evals) // 2))); del it
            elif a == "getpos": v = [view[i] for i in range(len(evals))]
            elif a == "getname": v = [view[n] for n in (enames or [])]
            elif a == "eq": v = (view == list(evals), True if isinstance(view, list) else view == tuple(evals))
        except Exception as e:
            ctx.fail(["dense", "raises", a, errname(e)], "%s raised %s: %s (access order %s) on %s" % (a, errname(e), str(e)[:80], order, case), dict(case, order=order)); return None
        exp = {"len": len(evals), "iter": list(evals), "partial": list(evals)[:max(1, len(evals) // 2)], "getpos": list(evals), "getname": list(evals) if enames else [], "eq": (True, True)}[a]
        if v != exp:
            ctx.fail(["dense", "wrong", a], "%s -> %r, eager %r (access order %s) on %s" % (a, v, exp, order, case), dict(case, order=order)); return None
        obs[a] = v
    return obs

def check_dense(ctx, n_cases):
    rng = ctx.rng
    reqs, metas = [], []
    for _ in range(n_cases):
        table, stages = gen_dense(rng)
        case = dict(table=table, stages=[(s[0],) + tuple(repr(x) for x in s[1:]) for s in stages])
        ctx.count("dense", repr(case), bool(stages) and len(table[0]) >= 2)
        try:
            views = build_dense(table, stages)
        except Exception as e:
            ctx.fail(["dense", "raises", "build", errname(e)], "building the pipeline raised %s: %s on %s" % (errname(e), str(e)[:100], case), case); continue
        labelled = bool(stages) and stages[-1][0] == "label"
        ok = True
        alive = [row for row in table if eager_dense(row, stages) is not None]
        if len(views) != len(alive):
            ctx.fail(["dense", "wrong", "rows"], "%d rows came out, the row predicates keep %d on %s" % (len(views), len(alive), case), case); continue
        if not alive: continue
        for row, view in zip(alive, views):
            evals, enames, elabel = eager_dense(row, stages)
            if labelled:
                try:
                    full_vals, full_names, _ = eager_dense(row, stages[:-1])
                    if view.label != elabel or list(view) != full_vals:
                        ctx.fail(["dense", "wrong", "label"], "label %r / row %r, eager %r / %r on %s" % (view.label, list(view), elabel, full_vals, case), case); ok = False; break
                    target = view.feats
                except Exception as e:
                    ctx.fail(["dense", "raises", "label", errname(e)], "label/feats raised %s on %s" % (errname(e), case), case); ok = False; break
            else: target = view
            if observe(ctx, target, evals, enames, case, rng) is None: ok = False; break
            try:
                hd = dict(target.headers) if enames is not None else None
            except Exception as e:
                ctx.fail(["dense", "raises", "headers", errname(e)], "headers raised %s on %s" % (errname(e), case), case); ok = False; break
            if enames is not None and hd != {n: i for i, n in enumerate(enames)}:
                ctx.fail(["dense", "wrong", "headers"], "headers %s, eager %s on %s" % (hd, enames, case), case); ok = False; break
        if not ok: continue
        # model for the first row
        row = alive[0]; evals, enames, _ = eager_dense(row, stages)
        reqs.append((13, wire_dense(row, stages, list(range(len(evals))), enames or [])))
        metas.append((case, evals, enames))
        ctx.sample(dict(case=case, eager=evals), cap=4)
    for (case, evals, enames), mo in zip(metas, ctx.get_model().batch(reqs)):
        mlen, miter, mget, mname, mhdr = mo
        exp = [len(evals), list(evals), [[v] for v in evals], [[v] for v in evals] if enames else [], [[[ord(n), i] for i, n in enumerate(enames)]] if enames is not None else []]
        if [mlen, miter, mget, mname, mhdr] != exp:
            ctx.disagree("C13.run", case, str(exp)[:300], str(mo)[:300])

# ---------------------------------------------------------------- sparse + lazy ARFF rows: oracle only
def check_sparse(ctx, n_cases):
    import coba.pipes.rows as R
    rng = ctx.rng
    for _ in range(n_cases):
        keys = ["0", "1", "2", "3"]
        table = [{k: str(rng.randrange(1, 9)) for k in rng.sample(keys, rng.randrange(0, 5))} for _ in range(rng.randrange(1, 4))]
        encs = {k: rng.choice([int, float, str, lambda x: int(x) + 1]) for k in rng.sample(keys, rng.randrange(0, 5))}
        drops = rng.sample(keys, rng.randrange(0, 3))
        lab = rng.choice(keys) if rng.random() < 0.5 else None
        lazy = rng.random() < 0.4
        case = dict(table=table, encoders=sorted(encs), drops=drops, label=lab, lazy_rows=lazy)
        ctx.count("sparse", repr(case), len(table[0]) >= 1)
        try:
            rows = [R.LazySparse((lambda r=r: dict(r))) for r in table] if lazy else [dict(r) for r in table]
            if encs: rows = R.EncodeRows(dict(encs)).filter(rows)
            pk, ppar = rng.choice(keys), rng.randrange(2)
            use_pred = bool(drops) and rng.random() < 0.4
            val = lambda x: int(float(x))
            if drops: rows = R.DropRows(drops, (lambda r: pk in r.keys() and val(r[pk]) % 2 == ppar) if use_pred else None).filter(rows)
            if lab is not None: rows = R.LabelRows(lab, "c").filter(rows)
            rows = list(rows)
            nsp = {k for k, e in encs.items() if e("0") != 0}
            before_drop = [{k: encs.get(k, lambda x: x)(r.get(k, "0")) for k in set(r) | nsp} for r in table]
            alive = [r for r, e in zip(table, before_drop) if not (use_pred and pk in e and val(e[pk]) % 2 == ppar)]
            if len(alive) != len(rows):
                ctx.fail(["sparse", "wrong", "rows"], "%d rows came out, the row predicate (key %s parity %d) keeps %d on %s" % (len(rows), pk, ppar, len(alive), case), dict(case, pred=[pk, ppar])); continue
            for r, v in zip(alive, rows):
                e = {k: encs.get(k, lambda x: x)(r.get(k, "0")) for k in set(r) | nsp}
                e = {k: x for k, x in e.items() if k not in drops}
                if lab is not None:
                    elabel = e.get(lab, 0); efeats = {k: x for k, x in e.items() if k != lab}
                    if lab not in e: e = dict(e, **{lab: 0})
                    got_label, feats = v.label, v.feats
                    if got_label != elabel or dict(feats.items()) != efeats or set(feats.keys()) != set(efeats):
                        ctx.fail(["sparse", "wrong", "label"], "label %r feats %r, eager %r %r on %s" % (got_label, dict(feats.items()), elabel, efeats, case), case); break
                order = ["items", "keys", "len", "getitem", "eq", "items"]; rng.shuffle(order)
                for a in order:
                    got = {"items": lambda: dict(v.items()), "keys": lambda: set(v.keys()), "len": lambda: len(v), "getitem": lambda: {k: v[k] for k in e}, "eq": lambda: v == e}[a]()
                    exp = {"items": e, "keys": set(e), "len": len(e), "getitem": e, "eq": True}[a]
                    if got != exp:
                        ctx.fail(["sparse", "wrong", a], "%s -> %r, eager %r (order %s) on %s" % (a, got, exp, order, case), dict(case, order=order)); raise StopIteration
        except StopIteration: pass
        except Exception as ex:
            ctx.fail(["sparse", "raises", errname(ex)], "sparse pipeline raised %s: %s on %s" % (errname(ex), str(ex)[:100], case), case)

def check_lazy_sparse(ctx, n_cases):
    """lazy sparse rows as the ARFF reader builds them (float / string / nominal-lookup encoders, '?' cells): access by name, items, keys, len, equality and label agree"""
    from coba.pipes.readers import ArffReader
    import coba.pipes.rows as R
    rng = ctx.rng
    for _ in range(n_cases):
        kinds = [rng.choice(["numeric", "nominal", "nominal", "string"]) for _ in range(rng.randrange(2, 5))]
        names = ["c%d" % i for i in range(len(kinds))]
        levels = {nm: ["x", "y", "z"][:rng.randrange(1, 4)] for nm, k in zip(names, kinds) if k == "nominal"}
        header = ["@relation r"] + ["@attribute %s %s" % (nm, "numeric" if k == "numeric" else "string" if k == "string" else "{" + ",".join(levels[nm]) + "}") for nm, k in zip(names, kinds)] + ["@data"]
        rows, exp = [], []
        for _ in range(rng.randrange(1, 4)):
            cells, e = [], {}
            for i, (nm, k) in enumerate(zip(names, kinds)):
                u = rng.random()
                if u < 0.25:      # absent: a numeric zero (not listed), the level / string "0"
                    if k != "numeric": e[nm] = "0"
                    continue
                sep = rng.choice([" ", " ", "  ", "\t", " \t"])      # index and value are separated by white space (Weka writes one blank, hand-edited and converted files do not)
                if u < 0.5: cells.append("%d%s?" % (i, sep)); e[nm] = None; continue
                if k == "numeric": v = rng.randrange(1, 9); cells.append("%d%s%d" % (i, sep, v)); e[nm] = float(v)
                elif k == "string":
                    v, txt = rng.choice([("p", "p"), ("q", "q"), ("a b", "'a b'"), ("c,d", '"c,d"')]); cells.append("%d%s%s" % (i, sep, txt)); e[nm] = v      # quoted values send the line down the quote-aware path
                else: v = rng.choice(levels[nm]); cells.append("%d%s%s" % (i, sep, v)); e[nm] = v
            rows.append("{" + ",".join(cells) + "}"); exp.append(e)
        lab = rng.choice(names) if rng.random() < 0.5 else None
        case = dict(lines=header + rows, label=lab)
        ctx.count("lazy-sparse", repr(case), len(rows) >= 1)
        try:
            got_rows = list(ArffReader().filter(iter(header + rows)))
            if lab is not None: got_rows = list(R.LabelRows(lab, "c").filter(got_rows))
            for v, e in zip(got_rows, exp):
                if lab is not None and lab not in e: e = dict(e, **{lab: 0.0})      # an absent numeric label is the zero
                norm = lambda x: None if x is None else (float(x) if isinstance(x, (int, float)) and not isinstance(x, bool) else str(x))
                order = ["getitem", "items", "keys", "len", "getitem", "label"]; rng.shuffle(order)
                for a in order:
                    if a == "getitem": got = {k: norm(v[k]) for k in e}; want = {k: norm(x) for k, x in e.items()}
                    elif a == "items": got = {k: norm(x) for k, x in dict(v.items()).items()}; want = {k: norm(x) for k, x in e.items()}
                    elif a == "keys": got = set(v.keys()); want = set(e)
                    elif a == "len": got = len(v); want = len(e)
                    else:
                        if lab is None or lab not in e: continue
                        got = norm(v.label); want = norm(e[lab])
                    if got != want:
                        ctx.fail(["lazy-sparse", "wrong", a], "%s -> %r, the file says %r on %s" % (a, got, want, case), dict(case, order=order)); raise StopIteration
        except StopIteration: pass
        except Exception as ex:
            ctx.fail(["lazy-sparse", "raises", errname(ex)], "lazy sparse row raised %s: %s on %s" % (errname(ex), str(ex)[:100], case), case)

def check_lazy_dense(ctx, n_cases):
    import coba.pipes.rows as R
    rng = ctx.rng
    for _ in range(n_cases):
        n = rng.randrange(1, 6)
        raw = [rng.choice(["1", "2", "7", "?", ""]) for _ in range(n)]
        names = rng.sample(NAMES, n)
        loads = []
        def loader(): loads.append(1); return list(raw)
        row = R.LazyDense(loader, [int] * n, dict(zip(names, range(n))), "?" in raw or "" in raw)
        e = [None if x in ("?", "") else int(x) for x in raw]
        order = ["partial", "getpos", "iter", "getname", "len", "eq", "partial", "getpos"]; rng.shuffle(order)
        case = dict(raw=raw, names=names, order=order)
        ctx.count("lazy-dense", repr(case), n >= 2)
        try:
            for a in order:
                if a == "partial":
                    k = rng.randrange(1, n + 1); it = iter(row); got = list(islice(it, k)); del it; exp = e[:k]
                elif a == "getpos": got = [row[i] for i in range(n)]; exp = e
                elif a == "iter": got = list(row); exp = e
                elif a == "getname": got = [row[nm] for nm in names]; exp = e
                elif a == "len": got = len(row); exp = n
                else: got = (row == e); exp = True
                if got != exp: ctx.fail(["lazy-dense", "wrong", a], "%s -> %r, eager %r on %s" % (a, got, exp, case), case); break
            if len(loads) > 1: ctx.fail(["lazy-dense", "reloaded"], "the loader ran %d times" % len(loads), case)
        except Exception as ex:
            ctx.fail(["lazy-dense", "raises", errname(ex)], "%s raised %s: %s on %s" % (a, errname(ex), str(ex)[:80], case), case)

# ---------------------------------------------------------------- sparse rows: the real wrapper stack against the extracted ModelSparse (op 113)
class SEnc:
    """encoders of the sparse model: int(x)+z, int(x)*z, const z  (values may be the strings the readers deliver or ints from an earlier stage)"""
    def __init__(self, kind, z): self.kind, self.z = kind, z
    def __call__(self, v):
        return int(v) + self.z if self.kind == 1 else (int(v) * self.z if self.kind == 2 else self.z)
    def __repr__(self): return "SEnc(%d,%d)" % (self.kind, self.z)

def check_sparse_model(ctx, n_cases):
    import coba.pipes.rows as R
    rng = ctx.rng
    reqs, metas = [], []
    for _ in range(n_cases):
        keys = rng.sample(range(6), rng.randrange(0, 5))
        d = {k: str(rng.randrange(-3, 9)) for k in keys}
        stages, off = [], 0
        for _ in range(rng.randrange(0, 5)):
            u = rng.random()
            if u < 0.45: stages.append(("encode", {k + off: SEnc(rng.randrange(1, 4), rng.randrange(0, 4)) for k in rng.sample(range(7), rng.randrange(0, 5))}))
            elif u < 0.8: stages.append(("drop", [k + off for k in rng.sample(range(7), rng.randrange(1, 4))]))
            else: sh = rng.choice([-7, 7, 20]); stages.append(("head", sh)); off += sh
        lab = rng.randrange(7) + off if rng.random() < 0.5 else None
        lazy = rng.random() < 0.3
        case = dict(row=d, stages=[(s[0], repr(s[1])) for s in stages], label=lab, lazy=lazy)
        ctx.count("sparse-model", repr(case), bool(stages) and len(d) >= 1)
        qs = sorted({k + off for k in range(-1, 8)} | {k for k in range(0, 7)})
        try:
            rows = [R.LazySparse(lambda: dict(d)) if lazy else dict(d)]
            for s in stages:
                if s[0] == "encode": rows = R.EncodeRows(dict(s[1])).filter(rows)
                elif s[0] == "drop": rows = R.DropRows(list(s[1])).filter(rows)
                else: rows = R.HeadRows({k + s[1]: k for k in range(-80, 80)}).filter(rows)
            if lab is not None: rows = R.LabelRows(lab, "c").filter(rows)
            v = list(rows)[0]
            def show(r): return [len(r), sorted(r.keys()), sorted([k, int(x)] for k, x in r.items())]
            def get(r, k):
                try: return [int(r[k])]
                except KeyError: return []
            order = ["show", "get", "show", "get"]; rng.shuffle(order)
            obs = {}
            for a in order:
                o = show(v) if a == "show" else [get(v, k) for k in qs]
                if a in obs and obs[a] != o:
                    ctx.fail(["sparse", "wrong", "unstable"], "%s gave %r then %r on %s" % (a, obs[a], o, case), case); raise StopIteration
                obs[a] = o
            impl = obs["show"] + [obs["get"]]
            if lab is not None:
                f = v.feats
                impl += [[int(v.label)], show(f)]
                if v.labeled[1] != v.label or sorted(v.labeled[0].items()) != sorted(f.items()):
                    ctx.fail(["sparse", "wrong", "labeled"], "labeled %r differs from feats/label on %s" % (v.labeled, case), case); continue
            if not (v == dict(v.items())):
                ctx.fail(["sparse", "wrong", "eq"], "row != dict(row.items()) on %s" % case, case); continue
        except StopIteration: continue
        except Exception as ex:
            ctx.fail(["sparse", "raises", errname(ex)], "sparse pipeline raised %s: %s on %s" % (errname(ex), str(ex)[:100], case), case); continue
        ws = []
        for s in stages:
            if s[0] == "encode": ws.append([0, [[k, e.kind, e.z] for k, e in s[1].items()]])
            elif s[0] == "drop": ws.append([1, list(s[1])])
            else: ws.append([2, s[1]])
        reqs.append((113, [[[k, int(x)] for k, x in d.items()], ws, [] if lab is None else [lab], qs]))
        metas.append((case, impl))
    for (case, impl), mo in zip(metas, ctx.get_model().batch(reqs)):
        def canon(t): return [t[0], sorted(t[1]), sorted(t[2])]
        m = canon(mo[:3]) + [mo[3]]
        if len(mo) > 4: m += [mo[4], canon(mo[5])]
        if m != impl:
            ctx.disagree("C13.run_sparse", case, str(impl)[:400], str(m)[:400])
            ctx.fail(["sparse", "wrong", "model"], "the wrapper stack reads %r, the proved model %r on %s" % (impl, m, case), case)

def check_view_equality(ctx, n_cases):
    """two views built by differently parameterised filters over the SAME materialised row objects are equal exactly when the eager rows they describe are equal"""
    import coba.pipes.rows as R
    rng = ctx.rng
    for _ in range(n_cases):
        sparse = rng.random() < 0.4
        ncol = rng.randrange(2, 5); names = NAMES[:ncol]
        raw = [[rng.randrange(0, 3) for _ in range(ncol)] for _ in range(rng.randrange(1, 4))]
        def stage():
            k = rng.choice(["drop", "drop", "encode", "label"])
            if k == "drop": return ("drop", rng.sample(names, rng.randrange(1, ncol)))
            if k == "encode": return ("encode", {nm: Enc(rng.choice([1, 2, 3]), rng.randrange(0, 3)) for nm in rng.sample(names, rng.randrange(1, ncol + 1))})
            return ("label", rng.choice(names))
        s1, s2 = stage(), stage()
        case = dict(rows=raw, names=names, sparse=sparse, stage1=repr(s1), stage2=repr(s2))
        ctx.count("view-equality:%s" % ("sparse" if sparse else "dense"), repr(case), True)
        def eager(r, st):
            d = dict(zip(names, r))
            if st[0] == "drop": d = {k: v for k, v in d.items() if k not in st[1]}
            elif st[0] == "encode": d = {k: (st[1][k](v) if k in st[1] else v) for k, v in d.items()}
            else: d = {k: v for k, v in d.items() if k != st[1]}
            return d if sparse else list(d.values())
        def apply(st, base):
            if st[0] == "drop": return list(R.DropRows(list(st[1])).filter(base))
            if st[0] == "encode": return list(R.EncodeRows(dict(st[1])).filter(base))
            return [v.feats for v in R.LabelRows(st[1], "c").filter(base)]
        try:
            base = [dict(zip(names, r)) for r in raw] if sparse else list(R.HeadRows(list(names)).filter([list(r) for r in raw]))
            if sparse: base = list(R.EncodeRows({}).filter(base)) if False else [R.LazySparse(b) for b in base]      # row objects (not plain dicts) that both pipelines wrap
            v1, v2 = apply(s1, base), apply(s2, base)
            for r, a, b in zip(raw, v1, v2):
                want = eager(r, s1) == eager(r, s2)
                got = (a == b, b == a)
                if got != (want, want):
                    ctx.fail(["view-equality", "sparse" if sparse else "dense"], "views over one row object compare %r / %r; the eager rows are %r and %r" % (got[0], got[1], eager(r, s1), eager(r, s2)), case); break
        except Exception as ex:
            ctx.fail(["view-equality", "raises", errname(ex)], "raised %s: %s on %s" % (errname(ex), str(ex)[:100], case), case)

def check_lazy_arff_dense(ctx, n_cases):
    """lazy dense ARFF rows share one line reader whose dialect is settled by the lines it has seen: whatever order the rows are first touched in, every row reads as the file says"""
    from coba.pipes.readers import ArffReader
    rng = ctx.rng
    for _ in range(n_cases):
        ncol = rng.randrange(2, 4)
        header = ["@relation r"] + ["@attribute s%d string" % i for i in range(ncol)] + ["@data"]
        rows, exp = [], []
        for _ in range(rng.randrange(2, 6)):
            cells, vals = [], []
            for _ in range(ncol):
                v = rng.choice(["a", "b c", "it is", "x", "d e"])
                style = rng.choice(["plain", "single", "double"]) if " " not in v else rng.choice(["single", "double"])
                cells.append(v if style == "plain" else ("'%s'" % v if style == "single" else '"%s"' % v)); vals.append(v)
            rows.append(",".join(cells)); exp.append(vals)
        order = list(range(len(rows))); rng.shuffle(order)
        case = dict(lines=header + rows, first_touched_in_order=order)
        ctx.count("lazy-arff-dense", repr(case), len(rows) >= 2)
        try:
            got_rows = list(ArffReader().filter(iter(header + rows)))
            got = {}
            for j in order: got[j] = list(got_rows[j])
            again = [list(r) for r in got_rows]
        except Exception as ex:
            ctx.fail(["lazy-arff-dense", "raises", errname(ex)], "raised %s: %s on %s" % (errname(ex), str(ex)[:100], case), case); continue
        bad = [j for j in order if got[j] != exp[j] or again[j] != exp[j]]
        if bad:
            ctx.fail(["lazy-arff-dense", "order-dependent"], "rows first touched in the order %s: row %d reads %r (then %r), the file says %r" % (order, bad[0], got[bad[0]], again[bad[0]], exp[bad[0]]), case)

def check_encode_cat(ctx, n_cases):
    """EncodeCatRows over list and dict rows with categoricals at the top level and inside nested lists/tuples: the output is the eager replacement (string / one-hot tuple /
    one-hot spliced in place for lists), the rows handed in are left exactly as they were (also nested lists shared by two rows), and a second pass gives the same"""
    import copy
    from coba.pipes.rows import EncodeCatRows
    from coba.primitives import Categorical
    rng = ctx.rng
    LV = ["u", "v", "w"]
    def cat(): return Categorical(rng.choice(LV), LV)
    def eager(x, tipe, top=True):
        if isinstance(x, Categorical): return str(x) if tipe == "string" else tuple(x.as_onehot)
        if isinstance(x, (list, tuple)):
            out = []
            for v in x:
                if isinstance(v, Categorical) and tipe == "onehot": out.extend(v.as_onehot)
                else: out.append(eager(v, tipe, False))
            return out
        if isinstance(x, dict):
            out = {}
            for k, v in x.items():
                if isinstance(v, Categorical) and tipe == "onehot": out["%s_%d" % (k, list(v.as_onehot).index(1))] = 1      # the documented flat form of a sparse row: key_level-index -> 1
                else: out[k] = eager(v, tipe, False)
            return out
        return x
    def norm(x):
        if isinstance(x, Categorical): return ("cat", str(x), tuple(x.levels))
        if isinstance(x, (list, tuple)): return [norm(v) for v in x]
        if isinstance(x, dict) or (hasattr(x, "items") and not isinstance(x, str)): return {k: norm(v) for k, v in dict(x.items()).items()}
        return x
    model_reqs, model_metas = [], []
    for it in range(n_cases + 1):
        if it == n_cases:
            for (case, f), mo in zip(model_metas, ctx.get_model().batch(model_reqs)):
                if [list(x) if isinstance(x, (list, tuple)) else x for x in mo] != [list(x) if isinstance(x, (list, tuple)) else x for x in f]: ctx.disagree("C13.encode_cat", case, f, mo)
            break
        tipe = rng.choice(["onehot", "onehot_tuple", "string"]); kind = rng.choice(["list", "list", "dict"]); n = rng.randrange(1, 5)
        shared = [cat(), rng.randrange(9)] if rng.random() < 0.3 else None      # one nested list object held by every row
        layout = rng.randrange(3)      # one layout per table: the filter reads the places of the categoricals off the first row
        def nested(): return shared if shared is not None else [[cat(), rng.randrange(9)], (rng.randrange(9), cat()), [rng.randrange(9), [cat()]]][layout]
        flat_layout = [rng.random() < 0.5 for _ in range(rng.randrange(1, 7))]; flat_layout[rng.randrange(len(flat_layout))] = True
        shape = rng.choice(["flat", "flat", "nested", "both"]); ckey = rng.choice(["c", "color", 2]); xkey = rng.choice(["x", "extra", 7])
        rows = []
        for _ in range(n):
            if kind == "list" and shape == "flat": rows.append([cat() if c else rng.randrange(9) for c in flat_layout])      # several categoricals: adjacent, first, last
            elif kind == "list": rows.append([rng.randrange(9)] + ([cat()] if shape != "nested" else []) + ([nested()] if shape != "flat" else []) + [rng.randrange(9)])
            else: rows.append(dict([("a", rng.randrange(9))] + ([(ckey, cat())] if shape != "nested" else []) + ([(xkey, nested())] if shape != "flat" else [])))
        before = norm(rows)
        case = dict(what="EncodeCatRows", tipe=tipe, rows=repr(rows)[:400], shared_nested_list=shared is not None); ctx.count("encode-cat:%s:%s" % (kind, tipe), repr(case), n >= 2)
        try:
            raw_first = list(EncodeCatRows(tipe).filter(rows)); first = [norm(r) for r in raw_first]
            mid = norm(rows)
            second = [norm(r) for r in EncodeCatRows(tipe).filter(rows)]
        except Exception as e:
            ctx.fail(["encode-cat", "raises", errname(e)], "EncodeCatRows(%r) raised %s: %s on %s" % (tipe, errname(e), str(e)[:100], case), case); continue
        if mid != before or norm(rows) != before:
            ctx.fail(["encode-cat", "source-rows-modified"], "EncodeCatRows(%r) changed the rows it was given: %r -> %r" % (tipe, before, norm(rows)), case); continue
        if first != second:
            ctx.fail(["encode-cat", "second-pass-differs"], "EncodeCatRows(%r): a second pass over the same rows gives %r, the first gave %r" % (tipe, second, first), case); continue
        if kind == "list" and tipe in ("string", "onehot_tuple") and shared is None:      # one value where the categorical stood: the in-place assignments, nested to any depth
            def wire_in(x): return [1, list(x.levels).index(str(x)), len(x.levels)] if isinstance(x, Categorical) else [2, [wire_in(y) for y in x]] if isinstance(x, (list, tuple)) else [0, x]
            def wire_out(x): return [3, LV.index(x)] if isinstance(x, str) else [4, list(x)] if isinstance(x, tuple) else [2, [wire_out(y) for y in x]] if isinstance(x, list) else [0, x]
            for r, f in zip(rows, raw_first): model_reqs.append((513, [0 if tipe == "string" else 1, wire_in(r)])); model_metas.append((case, wire_out(list(f))))
        if kind == "dict" and shape == "flat" and tipe == "onehot":      # the sparse flat form: the entry of the categorical goes, name_level -> 1 comes
            for r, f in zip(rows, first):
                if not isinstance(f, dict): continue
                want = [[1, -1, v] if k == "a" else [2, int(str(k)[len(str(ckey)) + 1:]), v] for k, v in f.items() if k == "a" or str(k).startswith(str(ckey) + "_")]
                if len(want) != len(f): continue
                c = r[ckey]
                model_reqs.append((413, [2, [[1, [], [0, r["a"]]], [2, [], [1, list(c.levels).index(str(c)), len(c.levels)]]]])); model_metas.append((case, want))
        if kind == "list" and tipe == "onehot" and shared is None:      # rows with collections nested to any depth: the extracted model of the recursion
            def wire(x): return [1, list(x.levels).index(str(x)), len(x.levels)] if isinstance(x, Categorical) else [2, [wire(y) for y in x]] if isinstance(x, (list, tuple)) else [0, x]
            for r, f in zip(rows, first): model_reqs.append((313, wire(r))); model_metas.append((case, f))
        if kind == "list" and shape == "flat" and tipe == "onehot":      # the in-place editing loop, statement by statement in the extracted model
            for r, f in zip(rows, first):
                if all(isinstance(x, (int, Categorical)) for x in r) and all(isinstance(x, int) for x in f):
                    model_reqs.append((213, [[1, list(x.levels).index(str(x)), len(x.levels)] if isinstance(x, Categorical) else [0, x] for x in r])); model_metas.append((case, f))
        exp = [norm(eager(r, tipe)) for r in rows]
        if first != exp and (kind == "list" or sorted(map(repr, first)) != sorted(map(repr, exp)) or True):
            if kind == "dict" and all(isinstance(a, dict) and isinstance(b, dict) and dict(a) == dict(b) for a, b in zip(first, exp)) and len(first) == len(exp): continue      # (key order of a sparse row does not matter)
            if True: ctx.fail(["encode-cat", "wrong", tipe], "EncodeCatRows(%r) -> %r, the eager replacement is %r" % (tipe, first, exp), case)

def corpus(ctx):
    import coba.pipes.rows as R
    rows = [[1, 2, 3], [4, 5, 6]]
    c = dict(what="EncodeRows then access by header name"); ctx.count("corpus", repr(c))
    try:
        e = list(R.EncodeRows([str, float, int]).filter(R.HeadRows(["a", "b", "c"]).filter(rows)))
        if e[0]["b"] != 2.0: ctx.fail(["dense", "wrong", "getname"], "e[0]['b'] = %r" % e[0]["b"], c)
    except Exception as ex: ctx.fail(["dense", "raises", "getname", errname(ex)], "EncodeRows row by name raised %s" % errname(ex), c)
    c = dict(what="LabelRows feats by header name and feats.headers"); ctx.count("corpus", repr(c))
    try:
        l = list(R.LabelRows("b", "c").filter(R.HeadRows(["a", "b", "c"]).filter(rows)))
        if l[0].feats["c"] != 3 or dict(l[0].feats.headers) != {"a": 0, "c": 1}: ctx.fail(["dense", "wrong", "headers"], "feats['c']=%r headers=%r" % (l[0].feats["c"], l[0].feats.headers), c)
    except Exception as ex: ctx.fail(["dense", "raises", "getname", errname(ex)], "feats by name raised %s" % errname(ex), c)

def run(ctx):
    corpus(ctx)
    check_dense(ctx, ctx.n(1500, 20000))
    check_sparse(ctx, ctx.n(500, 6000))
    check_sparse_model(ctx, ctx.n(800, 10000))
    check_view_equality(ctx, ctx.n(300, 4000))
    check_lazy_arff_dense(ctx, ctx.n(300, 4000))
    check_lazy_dense(ctx, ctx.n(500, 6000))
    check_lazy_sparse(ctx, ctx.n(400, 5000))
    check_encode_cat(ctx, ctx.n(300, 4000))

def replay(r):
    print(json.dumps(r, indent=1, default=str)[:3000]); return 0
