"""C01 — Experiment results do not depend on execution configuration."""
from .common import *
from . import expcore

LEVEL_TEXT = ("Coq theorems (C01/Props.v over Exp/Model.v): configuration_independence - for ANY deterministic evaluation function, ANY triples (objects shared in any pattern) and ANY two ways of cutting ANY permutations of the tasks "
              "MakeTasks produces into groups that are evaluated one after the other on freshly unpickled objects (in-process: one group; workers: one group per chunk, in any arrival order), the same rows are recorded for the same triples; "
              "rows_functional (duplicates agree, so arrival order cannot matter), ids_injective, source_shape (the copy rule, id assignment, materialisation and per-task handler are those the translator found in process.py on this run). "
              "The real MakeTasks/ChunkTasks/ProcessTasks run on stub components for every maxtasksperchunk and both execution styles and are compared with the extracted model; real experiments built from seeded built-in and "
              "user components run under (processes, maxchunksperchild, maxtasksperchunk) configurations with real worker processes and twice in a row, and their four tables must be identical (timing columns aside).")
TRUSTED = ["Coq 8.16.1 kernel (coqc)", "translator harness/translate/c01.py (statement templates, fails closed)", "extraction + ocaml/driver.ml", "harness/expcore.py (stub components, spec-built experiments, child interpreter, table comparison)",
           "modelled not verified: the evaluation itself is an abstract deterministic function of (environment, learner state, evaluator) - that built-in components are such functions is C04/C05/C06/C15's business and is observed here by the "
           "differential runs only; per-process global state (CobaContext.learning_info, caches, class attributes), pickling fidelity and the OS schedule enter through the real runs, not the model; C07 gives table building, C08 delivery"]
ASSUMPTIONS = ["components are deterministic given the experiment seed and freshly constructed for every run", "timing columns predict_time / learn_time are ignored", "worker processes are started with spawn on this platform"]
RULE = ("task level: 1-4 environments (0-2 shared Chunk pipes), 1-3 learners, 1-3 evaluators, cross products and tuple lists with repeats, failing evaluations, maxtasksperchunk 0-3, in-process and pickled-chunk styles; "
        "experiment level: linear synthetic environments with shared chunk()/cache() prefixes, shuffle(n=k) fan-out, logged data; Random/Epsilon/UCB/Fixed and stateful PMF-, kwargs- and learning_info-reporting user learners; "
        "SequentialCB (two record sets), RejectionCB, a function evaluator; configurations (1,0,0) (1,0,1) (1,1,0) (2,0,0) (2,1,1) (3,2,2) (2,0,2) and a repeat; non-trivial = at least two triples")

def fingerprints():
    d = {}
    for rel, quals in (('coba/experiments/process.py', ['MakeTasks.read', 'ChunkTasks._chunks', 'ChunkTasks._get_last_chunk', 'ChunkTasks._max_chunker', 'ProcessTasks.filter']),
                       ('coba/experiments/core.py', ['Experiment.run', 'Experiment._parse_init_args']), ('coba/multiprocessing.py', ['CobaMultiprocessor.filter', 'CobaMultiprocessor.ProcessFilter']),
                       ('coba/evaluators/sequential.py', ['SequentialCB.evaluate', 'SequentialCB._results', 'RejectionCB.evaluate'])):
        d.update(fingerprint_defs(rel, quals))
    return d

CONFIGS = [(1, 0, 0), (2, 0, 0), (1, 1, 0), (1, 0, 1), (2, 1, 1), (3, 2, 2), (2, 0, 2)]

def experiment_level(ctx, nexp, nconf):
    rng = ctx.rng
    jobs, index = [], []
    specs = [dict(envs=[["group", 0, 0], ["group", 0, 1]], lrns=[["info"], ["count", 1]], vals=[["rej"], ["seq"]], groups=[dict(n=8, seed=3, prefix="chunk", fan=2, logged=True)],
                  triples=[[0, 0, 0], [0, 0, 1], [1, 1, 1], [1, 0, 1], [0, 1, 0]])]
    specs.append(dict(envs=[["slow", 5, 3, 0.4], ["slow", 5, 4, 0.4], ["slow", 5, 5, 0.4]], lrns=[["count", 1]], vals=[["seq"]], groups=[], triples=[[0, 0, 0], [1, 0, 0], [2, 0, 0]]))
    # two learners of one class of which only one offers score, under evaluators that ask whether a learner can score
    specs.append(dict(envs=[["group", 0, 0], ["group", 0, 1]], lrns=[["mscore", True], ["mscore", False]], vals=[["seqips"]], groups=[dict(n=8, seed=4, prefix=None, fan=2, logged=True)],
                      triples=[[0, 0, 0], [0, 1, 0], [1, 1, 0], [1, 0, 0]]))
    # the record of evaluator 0 reaches the result after the record of evaluator 1 (its params are slow to compute): the tables are the same all the same
    specs.append(dict(envs=[["lin", 6, 3]], lrns=[["count", 1]], vals=[["slowparams", 0.6], ["seq2", 3]], groups=[], triples=[[0, 0, 0], [0, 0, 1]]))
    # environments whose params are complete only after a read (supervised data), behind a chunk(): the environments table does not depend on how the tasks are chunked
    specs.append(dict(envs=[["group", 0, 0], ["group", 0, 1]], lrns=[["count", 1], ["kwargs"]], vals=[["seq"]], groups=[dict(n=9, seed=2, prefix="chunk", fan=2, source="supervised")],
                      triples=[[0, 0, 0], [0, 1, 0], [1, 0, 0], [1, 1, 0]]))
    # one RejectionCB object (seeds whose first draw falls between the thresholds) for logged environments with different logging propensities: in-process and on workers alike
    specs.append(dict(envs=[["group", 0, 0]] + [["group", 1, k] for k in range(4)], lrns=[["skew"]], vals=[["rej", 7], ["rej", 2]],
                      groups=[dict(n=40, seed=3, prefix=None, fan=1, logged=True, logger="eps", na=2), dict(n=40, seed=4, prefix=None, fan=4, logged=True, na=3)],
                      triples=[[k, 0, v] for v in range(2) for k in range(5)]))
    n_fixed = len(specs)
    for _ in range(nexp): specs.append(expcore.gen_spec(rng))
    for si, spec in enumerate(specs):
        seed = rng.choice([1, 1, 7])
        confs = [CONFIGS[0], CONFIGS[0]] + (CONFIGS[1:] if si in (0, 2) else [(1, 1, 0), (2, 1, 1)] if si == 1 else [(2, 0, 0), (2, 0, 1), (3, 2, 2)] if si == 3 else [(1, 0, 1), (2, 0, 0), (2, 1, 1)] if si == 4 else [(2, 1, 1), (2, 0, 0)] if si == 5 else rng.sample(CONFIGS[1:], min(nconf, len(CONFIGS) - 1)))
        for ci, (p, mc, mt) in enumerate(confs):
            jobs.append(dict(spec=spec, p=p, mc=mc, mt=mt, seed=seed)); index.append((si, ci, (p, mc, mt)))
    done, hung, err = expcore.run_jobs(jobs, "c01")
    base = {}
    for j, (si, ci, conf) in enumerate(index):
        desc = dict(spec=specs[si], config=list(conf), seed=jobs[j]["seed"])
        if j not in done:
            if hung == j: ctx.fail(["config", "hang", "p%d" % conf[0]], "Experiment.run(processes=%d, maxchunksperchild=%d, maxtasksperchunk=%d) did not finish" % conf, desc)
            elif hung is None: ctx.fail(["config", "child-died"], "the child interpreter died before this run: %s" % err, desc)
            continue
        ctx.count("experiment:p%d-mc%d-mt%d" % conf, repr(desc), len(specs[si]["triples"]) >= 2)
        if done[j][0] != "ok":
            ctx.fail(["config", "run-raised", done[j][1]], "Experiment.run(processes=%d, maxchunksperchild=%d, maxtasksperchunk=%d) raised %s: %s" % (conf + (done[j][1], done[j][2])), desc); continue
        t = done[j][1]
        if ci == 0: base[si] = t; ctx.sample(dict(spec=specs[si], rows=len(t["interactions"]), first=t["interactions"][:1]), cap=2); continue
        if si not in base: continue
        if t != base[si]:
            what = "the same experiment run a second time in-process" if ci == 1 else "processes=%d, maxchunksperchild=%d, maxtasksperchunk=%d" % conf
            ctx.fail(["config", "tables-differ", "repeat" if ci == 1 else ("multi-process" if conf[0] > 1 or conf[1] else "chunking")], "%s gives a different Result than the in-process run: %s" % (what, expcore.first_diff(base[si], t)), desc)

def run(ctx):
    expcore.task_level(ctx, ctx.n(120, 1500), "config")
    experiment_level(ctx, ctx.n(3, 14), ctx.n(3, 6))

def replay(r):
    return "case.spec describes the experiment (harness.expcore.build(spec) constructs it), case.config = [processes, maxchunksperchild, maxtasksperchunk]; task-level cases give triples of stub component ids, F and the chunk assignment"
