"""C07 — the result log faithfully records what evaluators produced: stub evaluators through real Experiment.run calls."""
import math, os, shutil, tempfile
from fractions import Fraction as Fr
from .common import *

LEVEL_TEXT = ("Coq theorems (C07/Props.v): for ANY rows with heterogeneous key sets, packing column-wise with keys sorted and absent cells as None and unpacking again gives as many rows, numbered 1..N in the "
              "order yielded, each carrying for every key of the evaluation exactly the yielded cell or None (pack_unpack); the 5-decimal normalisation is within half a unit of the fifth decimal and exact on whole "
              "numbers (minimize_error_bound, minimize_keeps_integers; exact rationals). Tied to the code by correspondence of the extracted model with the interactions table of real Experiment.run calls and with "
              "utilities.minimize, plus an oracle on real runs: tables vs the documented normalisation of what stub environments/learners/evaluators produced; file run == no-file run == Result.from_file, plain and .gz, fresh and restored.")
TRUSTED = ["Coq 8.16.1 kernel (coqc)", "extraction + ocaml/driver.ml", "harness/c07.py (stub components, generators, normalisation oracle, cell identification by value id)",
           "modelled not verified: the json module and gzip (their round trip is observed end-to-end), Table.insert (C17), binary64 rounding inside minimize (compared with the exact-rational model up to near-ties), "
           "registered reward objects are expected to read back as the JSON form coba.json gives them"]
ASSUMPTIONS = ["field names are str or int and distinct after str() within one evaluation (the statement's own normalisation identifies 1 and '1'); they avoid the four id/index column names",
               "at least one row of an evaluation has a field (an evaluation whose rows are all empty is a listed finding)",
               "nested dictionaries use str/int keys; nested sequences read back as lists (only top-level ones become tuples)", "single process, in-process run (scheduling is C01/C08)"]
RULE = ("experiments with 1-3 environments x 1-2 learners x 1-2 evaluators; 0-6 rows per evaluation with ragged key sets over 1-5 str/int keys; cells: int, bool, None, finite/NaN/inf floats incl. near-ties and whole "
        "floats, unicode/newline/surrogate strings, nested list/tuple/dict, reward objects under 'rewards'; params dictionaries of the same shapes; plain and .gz; fresh and restored (first run with failing evaluators); "
        "non-trivial = at least two rows with different key sets")

def fingerprints():
    d = {}
    for rel, quals in (('coba/results/core.py', ['TransactionEncode.filter', 'TransactionDecode.filter', 'TransactionResult.filter']), ('coba/utilities.py', ['minimize']),
                       ('coba/experiments/core.py', ['Experiment.run']), ('coba/json.py', ['dumps', 'loads', 'dumps_registered']), ('coba/pipes/sinks.py', ['DiskSink.write', 'ListSink.write'])):
        d.update(fingerprint_defs(rel, quals))
    return d

RESERVED = {'environment_id', 'learner_id', 'evaluator_id', 'index'}
STRS = ["", "a", "naïve", "日本", "\U0001F600", "line1\nline2", "cr\rlf\r\n", "tab\t\"q\"\\", "  ", "caf\udce9", "x" * 70, " lead", "null", "NaN", "[1,2]", "{\"_packed\":1}"]

def gen_float(rng):
    k = rng.randrange(12)
    if k == 0: return float('nan')
    if k == 1: return rng.choice([float('inf'), float('-inf')])
    if k == 2: return float(rng.randrange(-50, 50))
    if k == 3: return rng.randrange(-10**6, 10**6) / 1e5 + rng.choice([5e-6, -5e-6, 4.999999e-6, 5.000001e-6])
    if k == 4: return rng.choice([1e-7, -1e-7, 4e-6, 6e-6, 1e16, -2.5e17, 1e300, 5e-324, 2.0**53, 0.1 + 0.2, -0.0])
    if k == 5: return rng.random() * 10 ** rng.randrange(-8, 12)
    return rng.uniform(-100, 100)

def gen_val(rng, depth=0):
    k = rng.randrange(14 if depth < 2 else 9)
    if k <= 1: return rng.randrange(-5, 100)
    if k <= 4: return gen_float(rng)
    if k == 5: return rng.choice(STRS)
    if k == 6: return None
    if k == 7: return rng.choice([True, False])
    if k == 8: return rng.choice([2 ** 70, -3, 0])
    if k <= 10: return [gen_val(rng, depth + 1) for _ in range(rng.randrange(0, 4))]
    if k == 11: return tuple(gen_val(rng, depth + 1) for _ in range(rng.randrange(0, 4)))
    return {rng.choice(["k", "日", 2, "a b", 7]): gen_val(rng, depth + 1) for _ in range(rng.randrange(0, 3))}

def gen_reward(rng):
    from coba.primitives import L1Reward, BinaryReward, HammingReward, DiscreteReward
    k = rng.randrange(5)
    if k == 0: return L1Reward(rng.choice([1.5, 2, 0.123456789]))
    if k == 1: return BinaryReward(rng.choice([1, [1], "a"]))
    if k == 2: return HammingReward(rng.choice([[1, 2], [3], ["a", "b"]]))
    if k == 3: return DiscreteReward([1, 2], [.5, .25])
    return [rng.random() for _ in range(rng.randrange(1, 3))]

def gen_keys(rng):
    pool = ["reward", "a", "b", "B", "10", "9", 3, 12, "z z", "日", "rewards", "é", "_packed", "probability", 0, -1]
    keys, seen = [], set()
    for k in rng.sample(pool, rng.randrange(1, 6)):
        if str(k) not in seen: seen.add(str(k)); keys.append(k)
    return keys

def gen_rows(rng):
    n = rng.choice([0, 1, 1, 2, 3, 4, 6])
    keys = gen_keys(rng)
    listy = {str(k) for k in keys if rng.random() < 0.3}      # columns that are mostly sequences (exercises the column-wise list->tuple rule)
    rows = []
    for _ in range(n):
        r = {}
        for k in keys:
            if rng.random() < 0.7:
                if isinstance(k, int) and rng.random() < 0.3: k = str(k)      # 1 and '1' name the same field in different rows
                elif isinstance(k, str) and k.isdigit() and rng.random() < 0.3: k = int(k)
                if k == "rewards": r[k] = gen_reward(rng)
                elif str(k) in listy and rng.random() < 0.8: r[k] = rng.choice([[1, 2], (3,), [], [[1], (2, 3.000004)], None])
                else: r[k] = gen_val(rng)
        rows.append(r)
    if rows and not any(rows) and rng.random() < 0.8: rows[rng.randrange(len(rows))][keys[0]] = 1
    return rows

def gen_params(rng):
    return {k: gen_val(rng) for k in gen_keys(rng) if k not in ("rewards",)}

class Env:
    def __init__(self, params, uid=0): self._p, self.uid = params, uid
    @property
    def params(self): return dict(self._p)
    def read(self): return []

class Lrn:
    def __init__(self, params, uid=0): self._p, self.uid = params, uid
    @property
    def params(self): return dict(self._p)

class Val:
    def __init__(self, params, table, fail, uid=0, calls=None, fault=None): self._p, self.table, self.fail, self.uid, self.calls, self.fault = params, table, fail, uid, calls, fault
    @property
    def params(self): return dict(self._p)
    def evaluate(self, env, lrn):
        key = (env.uid, lrn.uid, self.uid)
        if key in self.fail: raise Exception("verif: evaluator failure requested")
        if self.calls is not None: self.calls.append(key)
        if self.fault and self.fault[1] == key:
            if self.fault[0] == 'interrupt': raise KeyboardInterrupt()
            yield {'poison': {1, 2}}      # a cell json cannot encode: the run fails at this evaluation
        yield from (dict(r) for r in self.table[key])

# ------------------------------------------------------------------ the documented normalisation, as a matcher
def is_reward(v):
    return type(v).__name__ in ('L1Reward', 'BinaryReward', 'HammingReward', 'DiscreteReward')

def isnone(x): return x is None or type(x).__name__ == 'MissingType'      # the Table's own marker for an absent cell; it equals and prints as None

def match(got, orig, top):
    """None if `got` is `orig` up to the documented normalisation, else a short reason."""
    if orig is None: return None if isnone(got) else "None read back as %r" % (got,)
    if is_reward(orig):
        import json, coba.json
        return None if same(got, json.loads(coba.json.dumps(orig))) else "reward object read back as %r" % (got,)
    if isinstance(orig, bool) or orig is None or isinstance(orig, (int, str)):
        return None if type(got) is type(orig) and got == orig else "%r read back as %r" % (orig, got)
    if isinstance(orig, float):
        if math.isnan(orig): return None if isinstance(got, float) and math.isnan(got) else "nan read back as %r" % (got,)
        if math.isinf(orig): return None if isinstance(got, float) and got == orig else "%r read back as %r" % (orig, got)
        if isinstance(got, bool) or not isinstance(got, (int, float)) or (isinstance(got, float) and not math.isfinite(got)): return "%r read back as %r" % (orig, got)
        if orig.is_integer(): return None if got == orig else "whole float %r read back as %r" % (orig, got)
        err = abs(Fr(got) - Fr(orig))
        if err > Fr(1, 200000) + abs(Fr(orig)) * Fr(1, 2 ** 50): return "%r read back as %r (more than half a unit of the 5th decimal away)" % (orig, got)
        scaled = Fr(got) * 100000
        if abs(scaled - round(scaled)) > Fr(1, 10 ** 4) + abs(scaled) * Fr(1, 2 ** 48): return "%r read back as %r (not a 5-decimal number)" % (orig, got)
        return None
    if isinstance(orig, (list, tuple)):
        want = tuple if top else list
        if type(got) is not want: return "%s %r read back as %s %r" % ("top-level" if top else "nested", orig, type(got).__name__, got)
        if len(got) != len(orig): return "%r read back as %r" % (orig, got)
        for g, o in zip(got, orig):
            m = match(g, o, False)
            if m: return m
        return None
    if isinstance(orig, dict):
        if type(got) is not dict or set(got) != {str(k) for k in orig}: return "%r read back as %r" % (orig, got)
        for k, o in orig.items():
            m = match(got[str(k)], o, False)
            if m: return m
        return None
    return "unsupported %r" % (orig,)

def canon(v):
    if isinstance(v, float): return ('f', 'nan' if math.isnan(v) else v.hex())
    if isinstance(v, (list, tuple)): return (type(v).__name__, [canon(x) for x in v])
    if isinstance(v, dict): return ('d', [(canon(k), canon(x)) for k, x in v.items()])
    return (type(v).__name__, v)
def same(a, b): return canon(a) == canon(b)

def tables(result):
    return dict(environments=list(result.environments.to_dicts()), learners=list(result.learners.to_dicts()), evaluators=list(result.evaluators.to_dicts()),
                interactions=list(result.interactions.to_dicts()), experiment=dict(result.experiment))

def shape(v):
    if isinstance(v, float): return "nan" if math.isnan(v) else "inf" if math.isinf(v) else "whole-float" if v.is_integer() else "float"
    if is_reward(v): return "reward-object"
    return type(v).__name__

# ------------------------------------------------------------------ one experiment
def build(case):
    envs = [Env(p, i) for i, p in enumerate(case['env_params'])]; lrns = [Lrn(p, i) for i, p in enumerate(case['lrn_params'])]
    table, fail, calls = {}, set(), []
    vals = [Val(p, table, fail, i, calls, case.get('fault')) for i, p in enumerate(case['val_params'])]
    triples = []
    for (e, l, v), rows in case['rows']:
        triples.append((envs[e], lrns[l], vals[v])); table[(e, l, v)] = rows
    return envs, lrns, vals, triples, table, fail, calls

def gen_case(rng):
    ne, nl, nv = rng.choice([1, 1, 2, 3]), rng.choice([1, 2]), rng.choice([1, 1, 2])
    trip = [(e, l, v) for e in range(ne) for l in range(nl) for v in range(nv) if rng.random() < 0.85] or [(0, 0, 0)]
    rng.shuffle(trip)
    # ids are assigned in order of first appearance
    def ren(xs):
        m = {}
        for x in xs: m.setdefault(x, len(m))
        return m
    me, ml, mv = ren([t[0] for t in trip]), ren([t[1] for t in trip]), ren([t[2] for t in trip])
    trip = [(me[e], ml[l], mv[v]) for e, l, v in trip]
    restored = rng.random() < 0.4
    if rng.random() < 0.12: restored = 'torn'
    return dict(env_params=[gen_params(rng) for _ in me], lrn_params=[gen_params(rng) for _ in ml], val_params=[gen_params(rng) for _ in mv],
                rows=[(t, gen_rows(rng)) for t in trip], gz=rng.random() < 0.4, restored=restored, torn_bytes=rng.randrange(0, 13), fail=[t for t in trip if rng.random() < 0.4], empty_first=[t for t in trip if rng.random() < 0.2],
                fault=None if restored or rng.random() < 0.7 else (rng.choice(['interrupt', 'unencodable']), rng.choice(trip)))

def run_case(ctx, case, tmpdir, reqs, metas):
    from coba.experiments import Experiment
    from coba.results import Result
    envs, lrns, vals, triples, table, fail, calls = build(case)
    brief = dict(gz=case['gz'], restored=case['restored'], torn_bytes=case.get('torn_bytes'), empty_first=case.get('empty_first'), fault=case.get('fault'), rows=[[list(t), [{repr(k): repr(v) for k, v in r.items()} for r in rows]] for t, rows in case['rows']])
    def fl(kind, what, extra=None):
        d = dict(brief); d['detail'] = extra
        ctx.fail(kind, what, d)
    try:
        r_mem = Experiment(triples).run(quiet=True, processes=1, maxchunksperchild=0)
    except Exception as e:
        fl(["run", "raises", errname(e)], "Experiment.run() without a file raised %s: %s" % (errname(e), e)); return
    case_rows = case['rows']
    if case.get('fault'):      # the run is cut short at one evaluation: the evaluations completed before it must be there, exactly
        ft = tuple(case['fault'][1])
        done = calls[:calls.index(ft)] if ft in calls else list(calls)
        case_rows = [(t, rows) for t, rows in case['rows'] if t in done]
        del calls[:]
    path = os.path.join(tmpdir, "r%d.log%s" % (len(os.listdir(tmpdir)), ".gz" if case['gz'] else ""))
    try:
        if case['restored'] == 'torn':      # the file of an earlier run that was killed while writing its very first record (or that holds just a line break)
            import gzip
            head = b'["version",4]\n'
            raw = gzip.compress(head) if case['gz'] else head
            k = case.get('torn_bytes', 5)
            open(path, "wb").write(b"\n" if (k == 0 and not case['gz']) else raw[:max(1, min(k, len(raw) - 1))])
        elif case['restored']:
            for (e, l, v) in case['fail']: fail.add((e, l, v))
            saved = {tuple(t): table[tuple(t)] for t in case.get('empty_first', [])}      # evaluations that came up without rows in the earlier run
            for t in saved: table[t] = []
            Experiment(triples).run(path, quiet=True, processes=1, maxchunksperchild=0)
            fail.clear(); table.update(saved)
        r_file = Experiment(triples).run(path, quiet=True, processes=1, maxchunksperchild=0)
        r_from = Result.from_file(path)
    except Exception as e:
        fl(["run", "raises-file", errname(e)], "Experiment.run(file) / Result.from_file raised %s: %s" % (errname(e), e)); return
    t_mem, t_file, t_from = tables(r_mem), tables(r_file), tables(r_from)
    mode = ("gz" if case['gz'] else "plain") + ("+torn-start" if case['restored'] == 'torn' else "+restored" if case['restored'] else "") + ("+" + case['fault'][0] if case.get('fault') else "")
    if not same(t_file, t_from): fl(["three-way", "file-vs-from_file", mode], "run(file) and Result.from_file(file) differ (%s)" % mode, first_diff(t_file, t_from))
    if not same(t_file, t_mem): fl(["three-way", "file-vs-memory", mode], "run(file) and run() differ (%s)" % mode, first_diff(t_file, t_mem))
    # ---- the three parameter tables
    for name, idc, params, extra in () if case.get('fault') else (("environments", "environment_id", case['env_params'], ("env_type", "Env")), ("learners", "learner_id", case['lrn_params'], ("family", "Lrn")),
                                     ("evaluators", "evaluator_id", case['val_params'], ("eval_type", "Val"))):
        got = t_mem[name]
        if [g.get(idc) for g in got] != list(range(len(params))):
            fl(["params", name, "ids"], "%s table has ids %s for %d components" % (name, [g.get(idc) for g in got], len(params))); continue
        allkeys = {str(k) for p in params for k in p} | {extra[0], idc}
        for i, (g, p) in enumerate(zip(got, params)):
            exp = dict(p); exp.setdefault(extra[0], extra[1])
            if set(g) != allkeys: fl(["params", name, "columns"], "%s row %d has columns %s, expected %s" % (name, i, sorted(g), sorted(allkeys))); break
            for k in allkeys - {idc}:
                src = [o for kk, o in exp.items() if str(kk) == k]
                m = match(g[k], src[0], True) if src else (None if isnone(g[k]) else "absent field read back as %r" % (g[k],))
                if m: fl(["params", name, "value", shape(src[0]) if src else "absent"], "%s[%d][%r]: %s" % (name, i, k, m)); break
    # ---- the interactions table
    got = t_mem['interactions']
    allkeys = {str(k) for _, rows in case_rows for r in rows for k in r}
    exp_rows = []
    for t, rows in sorted(case_rows, key=lambda x: x[0]):
        empty = bool(rows) and not any(rows)
        for i, r in enumerate(rows): exp_rows.append((t, i + 1, r, empty))
    if any(e[3] for e in exp_rows):
        ctx.fail(["interactions", "all-empty-rows"], "an evaluation whose rows have no fields at all loses its rows", brief)
        exp_rows = [e for e in exp_rows if not e[3]]
    ids = [(g.get('environment_id'), g.get('learner_id'), g.get('evaluator_id'), g.get('index')) for g in got]
    if ids != [(t[0], t[1], t[2], i) for t, i, _, _ in exp_rows]:
        fl(["interactions", "rows-order-index"], "interactions rows are %s, the evaluators yielded %s" % (ids[:12], [(t[0], t[1], t[2], i) for t, i, _, _ in exp_rows][:12])); return
    bad = False
    for g, (t, i, r, _) in zip(got, exp_rows):
        if set(g) != allkeys | RESERVED: fl(["interactions", "columns"], "row %s/%d has columns %s, expected %s" % (t, i, sorted(g), sorted(allkeys | RESERVED))); bad = True; break
        for k in allkeys:
            src = [o for kk, o in r.items() if str(kk) == k]
            if k == 'rewards' and src and isinstance(src[0], (list, tuple)):
                m = match(g[k], list(src[0]), False)      # the 'rewards' column is documented to stay a list
            else:
                m = match(g[k], src[0], True) if src else (None if isnone(g[k]) else "absent field read back as %r" % (g[k],))
            if m: fl(["interactions", "value", shape(src[0]) if src else "absent"], "interactions %s row %d field %r: %s" % (t, i, k, m)); bad = True; break
        if bad: break
    # ---- model correspondence, per evaluation: which yielded cell ends up where
    for t, rows in case_rows:
        if not rows or not any(rows): continue
        ks = sorted({str(k) for r in rows for k in r})
        cells, req = [], []
        for r in rows:
            rr = []
            for k, v in r.items():
                cells.append(v); rr.append([ks.index(str(k)), len(cells) - 1])
            req.append(rr)
        reqs.append((7, [0, req])); metas.append(("pack", t, ks, cells, [g for g in got if (g['environment_id'], g['learner_id'], g['evaluator_id']) == t], brief))
    nontrivial = any(len({frozenset(map(str, r)) for r in rows}) > 1 for _, rows in case['rows'])
    ctx.count("experiment:" + mode, repr(brief), nontrivial)
    for _, rows in case['rows']:
        ctx.count("rows:%s" % min(len(rows), 4), None, False)
        for r in rows:
            for v in r.values(): ctx.count("cell:" + shape(v), None, False)
    ctx.sample(dict(case=brief, interactions=[{k: repr(v) for k, v in g.items()} for g in got[:3]]), cap=2)

def first_diff(a, b):
    for name in a:
        if not same(a[name], b[name]):
            if isinstance(a[name], list):
                for i, (x, y) in enumerate(zip(a[name], b[name])):
                    if not same(x, y): return dict(table=name, row=i, left=repr(x)[:400], right=repr(y)[:400])
                return dict(table=name, left_rows=len(a[name]), right_rows=len(b[name]))
            return dict(table=name, left=repr(a[name])[:400], right=repr(b[name])[:400])

def check_model(ctx, reqs, metas):
    outs = ctx.get_model().batch(reqs)
    for meta, out in zip(metas, outs):
        if meta[0] == "pack":
            _, t, ks, cells, got, brief = meta
            ok = len(out) == len(got)
            for (idx, kvs), g in zip(out, got):
                if not ok: break
                if idx != g['index'] or [ks[k] for k, _ in kvs] != ks: ok = False; break
                for k, c in kvs:
                    gv = g.get(ks[k])
                    if c < 0 and not isnone(gv): ok = False; break
                    if c >= 0 and match(gv, cells[c], ks[k] != 'rewards' or not isinstance(cells[c], (list, tuple))) is not None: ok = False; break
            if not ok: ctx.disagree("C07.pack_unpack", dict(triple=list(t), keys=ks, case=brief), repr(got)[:600], repr(out)[:600])
        else:
            _, v, got = meta
            m = un_q(out)
            near_tie = abs((Fr(v) * 100000) % 1 - Fr(1, 2)) <= abs(Fr(v) * 100000) / 2 ** 51 + Fr(1, 2 ** 30)      # binary64 v*P can land on the other side of the tie
            tol = Fr(1, 100000) + abs(Fr(v)) / 2 ** 50 if near_tie else abs(Fr(v)) / 2 ** 50 + Fr(1, 10 ** 15)
            if abs(Fr(got) - m) > tol: ctx.disagree("C07.minimize", dict(v=v.hex()), repr(got), str(m))

def check_minimize(ctx, n, reqs, metas):
    from coba.utilities import minimize
    rng = ctx.rng
    for _ in range(n):
        v = gen_float(rng)
        if not math.isfinite(v) or abs(v) > 1e18 or (v != 0 and abs(v) < 1e-30): continue
        got = minimize(v)
        m = match(got, v, True)
        ctx.count("minimize:" + shape(v), v.hex(), not v.is_integer())
        if m: ctx.fail(["minimize", shape(v)], "minimize(%r): %s" % (v, m), dict(v=v.hex())); continue
        for wrapped, pick in ((minimize([v]), lambda x: x[0]), (minimize({'a': (v,)}), lambda x: x['a'][0])):
            if not same(pick(wrapped), got): ctx.fail(["minimize", "nested-differs"], "minimize(%r) is %r at top level and %r nested" % (v, got, pick(wrapped)), dict(v=v.hex()))
        fr = Fr(v)
        reqs.append((7, [1, [fr.numerator, fr.denominator]])); metas.append(("min", v, got))

CORPUS = [[{}, {}], [{'a': [1, 2]}, {'b': 1}], [{'b': 1}, {'a': [1, 2]}], [{1: 2, 'a': 5}, {'1': 3, 'a': 6}], [{'s': 'caf\udce9\n\u2028'}, {'s': float('nan'), 't': (1, (2,))}]]

def run(ctx):
    from coba.context import CobaContext, NullLogger
    old = CobaContext.logger
    CobaContext.logger = NullLogger()
    tmpdir = tempfile.mkdtemp(prefix="c07_", dir=os.path.join(VERIF, ".work"))
    reqs, metas = [], []
    try:
        for rows in CORPUS:      # minimised earlier failures run first
            run_case(ctx, dict(env_params=[{}], lrn_params=[{'p': (1, [2.000004])}], val_params=[{3: 0.1234567}], rows=[((0, 0, 0), rows)], gz=False, restored=False, fail=[]), tmpdir, reqs, metas)
        for _ in range(ctx.n(60, 1500)):
            run_case(ctx, gen_case(ctx.rng), tmpdir, reqs, metas)
        check_minimize(ctx, ctx.n(300, 6000), reqs, metas)
        check_model(ctx, reqs, metas)
    finally:
        CobaContext.logger = old
        shutil.rmtree(tmpdir, ignore_errors=True)

def replay(r):
    return "the failing experiment is described in the replay file (rows per triple with repr'd cells, gz/restored mode); re-run `./check C07` with VERIF_SEED to regenerate it"
