"""Shared machinery of the /verif checks: S-expression codec, model runner (extracted OCaml),
translator / proof drivers, evidence writer, known-findings matcher, decision logic (DESIGN.md §2)."""
import os, sys, json, time, subprocess, random, hashlib, fcntl, re, importlib, traceback, warnings

VERIF = os.path.dirname(os.path.dirname(os.path.abspath(__file__)))
REPO = os.environ.get("VERIF_REPO", "/repo")
COQ = os.path.join(VERIF, "coq")
GEN = os.path.join(COQ, "theories", "Generated")
DRIVER = os.path.join(VERIF, "ocaml", "driver")
PY = "/venv/bin/python"

# ------------------------------------------------------------------ S-expressions over integers
def sx(v):
    """Python nested lists/tuples of ints (bools as 0/1) -> text."""
    if isinstance(v, bool): return "1" if v else "0"
    if isinstance(v, int): return str(v)
    if isinstance(v, (list, tuple)): return "(" + " ".join(sx(x) for x in v) + ")"
    raise TypeError("sx: %r" % (v,))

def unsx(s):
    toks = s.replace("(", " ( ").replace(")", " ) ").split()
    pos = 0
    def rd():
        nonlocal pos
        t = toks[pos]; pos += 1
        if t == "(":
            out = []
            while toks[pos] != ")": out.append(rd())
            pos += 1
            return out
        return int(t)
    v = rd()
    assert pos == len(toks), s
    return v

def s_str(s): return [ord(c) for c in s]
def un_str(l): return "".join(chr(c) for c in l)
def s_opt(v, f=lambda x: x): return [] if v is None else [f(v)]
def un_opt(l, f=lambda x: x): return None if l == [] else f(l[0])
def s_q(fr):
    from fractions import Fraction
    fr = Fraction(fr)
    return [fr.numerator, fr.denominator]
def un_q(l):
    from fractions import Fraction
    return Fraction(l[0], l[1])
ERR = lambda code: [-1, code]
def is_err(v): return isinstance(v, list) and len(v) == 2 and v[0] == -1

class Model:
    """Runs the extracted Gallina model: one line  '<op> <sexp>'  in, one sexp line out."""
    def __init__(self):
        if not os.path.exists(DRIVER):
            raise RuntimeError("model driver not built; run setup.sh")
    def batch(self, reqs, timeout=600):
        """reqs: list of (op:int, value) -> list of decoded results."""
        if not reqs: return []
        inp = "".join("%d %s\n" % (op, sx(v)) for op, v in reqs)
        p = subprocess.run([DRIVER], input=inp, capture_output=True, text=True, timeout=timeout)
        if p.returncode != 0:
            raise RuntimeError("model driver failed: " + p.stderr[-2000:])
        lines = p.stdout.strip("\n").split("\n")
        if len(lines) != len(reqs):
            raise RuntimeError("model driver returned %d lines for %d requests" % (len(lines), len(reqs)))
        return [unsx(l) for l in lines]
    def call(self, op, v):
        return self.batch([(op, v)])[0]

# ------------------------------------------------------------------ implementation access
def import_impl():
    """Import coba from REPO (current working tree), quietly."""
    warnings.filterwarnings("ignore")
    if sys.path[0] != REPO: sys.path.insert(0, REPO)
    import coba  # noqa
    assert os.path.abspath(coba.__file__).startswith(os.path.abspath(REPO)), coba.__file__
    return coba

def errname(e):
    return type(e).__name__

# ------------------------------------------------------------------ translation + proofs
def emit_generated(files):
    os.makedirs(GEN, exist_ok=True)
    changed = []
    for name, text in files.items():
        p = os.path.join(GEN, name)
        old = open(p).read() if os.path.exists(p) else None
        if old != text:
            tmp = p + ".tmp%d" % os.getpid()
            open(tmp, "w").write(text)
            os.replace(tmp, p)
            changed.append(name)
    return changed

class BuildLock:
    def __enter__(self):
        self.f = open(os.path.join(VERIF, ".build.lock"), "w")
        fcntl.flock(self.f, fcntl.LOCK_EX)
        return self
    def __exit__(self, *a):
        fcntl.flock(self.f, fcntl.LOCK_UN); self.f.close()

def run_translators(pid):
    """Returns (ok, detail, fingerprints, changed_files). Never raises."""
    name = "harness.translate." + pid.lower()
    try:
        mod = importlib.import_module(name)
    except ModuleNotFoundError:
        return True, "no translator for " + pid, {}, []
    try:
        files, fps = mod.translate(REPO)
    except Exception as e:
        return False, "%s: %s" % (type(e).__name__, e), {}, []
    with BuildLock():
        changed = emit_generated(files)
    return True, "generated " + ", ".join(sorted(files)), fps, changed

def coq_make(targets=None, timeout=3000):
    """(Re)build the Coq development. Returns (ok, log)."""
    with BuildLock():
        if not os.path.exists(os.path.join(COQ, "Makefile")):
            subprocess.run(["coq_makefile", "-f", "_CoqProject", "-o", "Makefile"], cwd=COQ, check=True, capture_output=True)
        cmd = ["timeout", str(timeout), "make", "-k", "-j16"] + (targets or [])
        p = subprocess.run(cmd, cwd=COQ, capture_output=True, text=True)
        log = p.stdout + p.stderr
        # a re-run of Extract.v leaves a fresh model.ml in coq/: rebuild the driver from it
        if os.path.exists(os.path.join(COQ, "model.ml")):
            for f in ("model.ml", "model.mli"):
                os.replace(os.path.join(COQ, f), os.path.join(VERIF, "ocaml", f))
            q = subprocess.run(["ocamlfind", "ocamlopt", "-w", "-a", "-O2", "model.mli", "model.ml", "driver.ml", "-o", "driver"],
                               cwd=os.path.join(VERIF, "ocaml"), capture_output=True, text=True)
            if q.returncode != 0: log += "\nDRIVER BUILD FAILED: " + q.stderr[-2000:]
        m = re.search(r'File "[^"]+", line \d+[^\n]*\n(?:.*\n){0,12}?Error[^\n]*(?:\n.*){0,6}', log)
        return p.returncode == 0, (m.group(0) if m else log[-4000:])

def theorem_names(vfile):
    src = open(vfile).read()
    src = re.sub(r"\(\*.*?\*\)", "", src, flags=re.S)
    return re.findall(r"^\s*(?:Theorem|Example)\s+([A-Za-z0-9_']+)", src, flags=re.M)

FORBIDDEN = re.compile(r"\b(Admitted|admit|Axiom|Axioms|Parameter|Parameters|Conjecture|Hypothesis|Variable|Unset\s+Guard|bypass_check|Admit\s+Obligations|type-in-type|impredicative-set)\b")

def scan_forbidden():
    """No Admitted/Axiom/... anywhere in the development (Variable/Hypothesis allowed only inside a Section)."""
    bad = []
    for root, _, fs in os.walk(os.path.join(COQ, "theories")):
        for f in fs:
            if not f.endswith(".v"): continue
            src = open(os.path.join(root, f)).read()
            src_nc = re.sub(r"\(\*.*?\*\)", lambda m: " " * len(m.group(0)), src, flags=re.S)
            depth = 0
            for i, line in enumerate(src_nc.split("\n"), 1):
                if re.match(r"\s*Section\s", line): depth += 1
                if re.match(r"\s*End\s", line) and depth > 0: depth -= 1
                for m in FORBIDDEN.finditer(line):
                    w = m.group(1)
                    if w in ("Variable", "Hypothesis") and depth > 0: continue
                    bad.append("%s:%d:%s" % (f, i, w))
    return bad

def prove(pid, timeout=1500):
    """Full build of everything Props depends on, then re-check Cxx/Props.v itself and capture Print Assumptions.
    Returns dict(ok, obligations, discharged, failing, assumptions, log, cmd)."""
    props = os.path.join(COQ, "theories", pid, "Props.v")
    names = theorem_names(props)
    res = dict(ok=False, obligations=len(names), discharged=0, failing=None, assumptions=[], log="",
               cmd="cd coq && make -j16 && coqc -Q theories Coba theories/%s/Props.v   (coqc 8.16.1, full .vo build)" % pid)
    bad = scan_forbidden()
    if bad:
        res["log"] = "forbidden vernacular: " + ", ".join(bad); res["failing"] = "forbidden-vernacular"
        return res
    ok, log = coq_make(targets=["theories/%s/Props.vo" % pid, "theories/Extract.vo"], timeout=timeout)
    if not ok:
        m = re.search(r'File "([^"]+)", line (\d+)', log)
        res["log"] = log[-3000:]
        res["failing"] = "build: " + (m.group(0) if m else "make failed")
        # count theorems of Props that still check: try compiling Props alone below only if its deps built
        if not os.path.exists(props[:-2] + ".vo") or (m and ("/" + pid + "/") in m.group(1) or m and "Generated" in m.group(1) or m and "Common" in m.group(1)):
            pass
        # try to name the first failing theorem when the failure is in Props.v itself
        if m and m.group(1).endswith("%s/Props.v" % pid):
            line = int(m.group(2)); src = open(props).read().split("\n")
            before = [n for n in re.findall(r"^\s*(?:Theorem|Example)\s+([A-Za-z0-9_']+)", "\n".join(src[:line]), flags=re.M)]
            res["discharged"] = max(0, len(before) - 1); res["failing"] = "theorem " + (before[-1] if before else "?")
        return res
    with BuildLock():
        p = subprocess.run(["timeout", "600", "coqc", "-Q", "theories", "Coba", "theories/%s/Props.v" % pid], cwd=COQ, capture_output=True, text=True)
    out = p.stdout + p.stderr
    res["log"] = out[-6000:]
    if p.returncode != 0:
        m = re.search(r'line (\d+)', out)
        line = int(m.group(1)) if m else 0
        before = re.findall(r"^\s*(?:Theorem|Example)\s+([A-Za-z0-9_']+)", "\n".join(open(props).read().split("\n")[:line]), flags=re.M)
        res["discharged"] = max(0, len(before) - 1); res["failing"] = "theorem " + (before[-1] if before else "?")
        return res
    # assumptions: blocks printed by Print Assumptions
    ass = set()
    for blk in re.split(r"\n(?=Closed under|Axioms:)", out):
        if blk.startswith("Axioms:"):
            for l in blk.split("\n")[1:]:
                m = re.match(r"^([A-Za-z_][A-Za-z0-9_.']*)\s*:", l)
                if m: ass.add(m.group(1))
    res.update(ok=True, discharged=len(names), assumptions=sorted(ass), closed=out.count("Closed under the global context"))
    return res

# ------------------------------------------------------------------ known findings
def load_known(pid):
    p = os.path.join(VERIF, "known_findings.json")
    if not os.path.exists(p): return []
    return [k for k in json.load(open(p))["findings"] if k["property"] == pid]

# ------------------------------------------------------------------ the per-run context
class Ctx:
    def __init__(self, pid, tier, seed):
        self.pid, self.tier, self.seed = pid, tier, seed
        self.rng = random.Random(seed * 1000003 + int(pid[1:]))
        self.t0 = time.time()
        self.evaluations = 0
        self.distinct = set()
        self.samples = []
        self.dist = {}
        self.disagreements = []      # model vs implementation
        self.failures = []           # property fails on the implementation: dict(sig, what, case)
        self.known_hit = {}          # key -> what
        self.notes = []
        self.known = load_known(pid)
        self.model = None
        self.escalated = False
        self.tie = None
        self.proof = None
        try: os.remove(os.path.join(VERIF, 'replays', '%s-%s-seed%d.json' % (pid, tier, seed)))
        except OSError: pass
    # budgets
    def n(self, quick, thorough):
        n = thorough if (self.tier == "thorough" or self.escalated) else quick
        return n
    def get_model(self):
        if self.model is None: self.model = Model()
        return self.model
    # bookkeeping
    def count(self, kind, key=None, nontrivial=True):
        self.evaluations += 1
        self.dist[kind] = self.dist.get(kind, 0) + 1
        if nontrivial and key is not None:
            self.distinct.add(hashlib.md5(repr((kind, key)).encode()).digest()[:8])
    def sample(self, s, cap=6):
        if len(self.samples) < cap: self.samples.append(s)
    def disagree(self, op, case, impl, model):
        self.disagreements.append(dict(op=op, case=case, impl=impl, model=model))
    def fail(self, sig, what, case):
        """The implementation violates the property on `case`. sig: list of strings classifying the failure."""
        for k in self.known:
            if k.get("status") == "open" and list(k["signature"]) == list(sig)[:len(k["signature"])]:
                self.known_hit.setdefault(k["key"], k["what"])
                return "known"
        self.failures.append(dict(sig=list(sig), what=what, case=case))
        return "new"
    def is_known_open(self, sig):
        return any(k.get("status") == "open" and list(k["signature"]) == list(sig)[:len(k["signature"])] for k in self.known)

def write_replay(ctx, kind, payload):
    d = os.path.join(VERIF, "replays"); os.makedirs(d, exist_ok=True)
    p = os.path.join(d, "%s-%s-seed%d.json" % (ctx.pid, ctx.tier, ctx.seed))
    json.dump(dict(property=ctx.pid, kind=kind, seed=ctx.seed, tier=ctx.tier, **payload), open(p, "w"), indent=1, default=str)
    return p

def finish(ctx, level_text, trusted_base, assumptions, rule, extra=None):
    """Decide (DESIGN §2.4), write evidence, print VIOLATION / KNOWN-FINDING lines, return exit code."""
    proof, tie = ctx.proof, ctx.tie
    for key, what in sorted(ctx.known_hit.items()):
        print("KNOWN-FINDING: property=%s %s" % (ctx.pid, what))
    violations = 0
    if ctx.failures:
        violations = len(ctx.failures)
        f = ctx.failures[0]
        p = write_replay(ctx, "failing-input", dict(signature=f["sig"], what=f["what"], case=f["case"], more=ctx.failures[1:10],
                                                      proof=proof and {k: proof[k] for k in ("ok", "failing")}, tie=tie))
        print("VIOLATION property=%s replay=%s" % (ctx.pid, p))
    elif ctx.disagreements or not (proof and proof["ok"]) or not (tie and tie["ok"]):
        violations = 1
        broken = []
        if not (tie and tie["ok"]): broken.append("translator tie: " + (tie["detail"] if tie else "not run"))
        if not (proof and proof["ok"]): broken.append("proof: " + str(proof and proof["failing"]))
        if ctx.disagreements: broken.append("correspondence: op %s" % ctx.disagreements[0]["op"])
        p = write_replay(ctx, "no-failing-input-found", dict(broken=broken, disagreements=ctx.disagreements[:10],
                         proof_log=(proof or {}).get("log", "")[-3000:],
                         note="the property oracle passed on every explored input; the property is no longer shown to hold"))
        print("VIOLATION property=%s replay=%s no-failing-input-found" % (ctx.pid, p))
    cov = dict(
        obligations=proof["obligations"] if proof else 0,
        discharged=proof["discharged"] if proof else 0,
        checker_cmd=proof["cmd"] if proof else "",
        trusted_base=trusted_base + ["Print Assumptions (this run): " + (", ".join(proof["assumptions"]) if proof and proof["assumptions"] else "all property theorems closed under the global context")],
        evaluations=ctx.evaluations, distinct_nontrivial=len(ctx.distinct), rule=rule, samples=ctx.samples,
        input_distribution=ctx.dist, translator=tie, escalated_budget=ctx.escalated,
        correspondence_disagreements=len(ctx.disagreements), property_failures=len(ctx.failures),
        known_findings_reproduced=sorted(ctx.known_hit), notes=ctx.notes, explanation=level_text)
    if extra: cov.update(extra)
    ev = dict(property_id=ctx.pid, tier=ctx.tier, seed=ctx.seed, level="proof", coverage=cov,
              assumptions=assumptions, wall_s=round(time.time() - ctx.t0, 2), violations=violations)
    os.makedirs(os.path.join(VERIF, "evidence"), exist_ok=True)
    if ctx.proof.get("cmd") == "skipped":      # --no-proof is a debugging aid: it must not overwrite the evidence of a real run
        json.dump(ev, open(os.path.join(VERIF, ".work", ctx.pid + ".noproof-evidence.json"), "w"), indent=1, default=str)
    else:
        json.dump(ev, open(os.path.join(VERIF, "evidence", ctx.pid + ".json"), "w"), indent=1, default=str)
    return 1 if violations else 0

def check_fingerprints(ctx, fps):
    """Source-drift escalation: compare fingerprints with the committed ones."""
    p = os.path.join(VERIF, "harness", "fingerprints.json")
    base = json.load(open(p)).get(ctx.pid, {}) if os.path.exists(p) else {}
    drift = sorted(k for k in fps if base.get(k) != fps[k])
    if drift and base:
        ctx.escalated = True
        ctx.notes.append("source drift in: " + ", ".join(drift) + " -> thorough budget used")
    return drift


def fingerprint_defs(relpath, quals):
    """normalised-AST fingerprints of the named functions/classes of one source file (source-drift escalation)"""
    from harness.translate import pyexpr
    tree = pyexpr.parse_file(os.path.join(REPO, relpath))
    out = {}
    for q in quals:
        try: out[relpath + ":" + q] = pyexpr.fingerprint(pyexpr.find_def(tree, q))
        except Exception as e: out[relpath + ":" + q] = "missing"
    return out
