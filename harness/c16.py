"""C16 — built-in learners: histories on the real learners; validity/consistency oracle after every step;
policies compared with the exact-rational model (state read out of the learner)."""
import math
from fractions import Fraction as Fr
from .common import *
from . import c05

LEVEL_TEXT = ("Coq theorems (C16/Props.v): for EVERY internal state the policies of Random, BanditEpsilon, BanditUCB (whatever the confidence values are) and Corral are valid distributions "
              "(entries >= 0, exact sum 1, one entry per action); Corral's log-barrier step below the first pole keeps every weight positive and the smoothing keeps a positive distribution; "
              "predict draws an in-range index of positive probability (C05). The models are compared with the learners' own _pmf on generated histories; a validity/consistency oracle runs after every step.")
TRUSTED = ["Coq 8.16.1 kernel (coqc)", "extraction + ocaml/driver.ml", "harness/c16.py (history generator, state read-out, tolerance 1e-9)",
           "modelled not verified: BanditUCB's bonus sqrt(ln t/n*min(1/4,V)) (libm; taken from the learner), Corral's root search (its lambda is recovered from the result and checked to explain all weights), binary64 rounding"]
ASSUMPTIONS = ["rewards in [0,1] for Corral and in {0,1/4,1/2,1} generally; action sets have pairwise distinct actions", "FixedLearner is used with action sets of its PMF's length"]
RULE = ("histories of 5-60 rounds with action sets of size 1-5 that change between rounds (never-seen and disappearing actions), hashable/dense/sparse actions, epsilon in {0,.05,.5,1}, "
        "Corral over Random/Epsilon/UCB/Fixed with eta in {.075,.5,1,2,4}, modes importance/off-policy, T in {inf, 10, 1000}; non-trivial = at least 5 rounds")

def fingerprints():
    fp = fingerprint_defs('coba/learners/bandit.py', ['BanditEpsilonLearner', 'BanditUCBLearner', 'FixedLearner', 'RandomLearner', 'make_hashable'])
    fp.update(fingerprint_defs('coba/learners/corral.py', ['CorralLearner']))
    fp.update(fingerprint_defs('coba/learners/utilities.py', ['PMFPredictor', 'PMFInfoPredictor']))
    fp.update(fingerprint_defs('coba/learners/misguided.py', ['MisguidedLearner']))
    return fp

def q(x): return s_q(Fr(x))

def make_actions(rng, kind, pool):
    n = rng.choice([1, 2, 3, 3, 4, 5])
    ids = rng.sample(range(pool), min(n, pool))
    if kind == "hash": return [10 + i for i in ids]
    if kind == "small": return list(ids)      # includes the arms 0 and 1
    if kind == "str": return ["a%d" % i for i in ids]
    if kind == "dense": return [(i, i + 1) for i in ids]
    if kind == "rowdense":      # the dense row types coba's own pipes hand out (they implement Dense without being lists or tuples)
        from coba.pipes.rows import HeadDense, LazyDense
        return [HeadDense([i, i + 1], {"a": 0, "b": 1}) if i % 2 else LazyDense([i, i + 1]) for i in ids]
    if kind == "rowsparse":
        from coba.pipes.rows import LazySparse
        return [LazySparse({"k": i, "z": 1}) for i in ids]
    if kind == "sparsemix": return [{i: 1.0, "bias": 1} for i in ids]      # keys of different types in one mapping
    return [{"k": i, "z": 1} for i in ids]

def valid(pmf, n, tol=1e-9):
    return len(pmf) == n and all(p >= -1e-12 for p in pmf) and abs(sum(pmf) - 1) < tol

def seed_pick(rng):
    return rng.choice([1, 2, 7, c05.seed_for(0, rng.randrange(0, 6)), rng.randrange(2**30)])

def drive(ctx, name, make, rng, reqs):
    from coba.learners import BanditEpsilonLearner, BanditUCBLearner, CorralLearner
    kind = rng.choice(["hash", "hash", "small", "str", "dense", "sparse", "sparsemix", "rowdense", "rowsparse"])
    inplace = rng.random() < 0.2      # the caller keeps ONE list object and edits it in place between rounds
    shared = []
    single_start = rng.random() < 0.15      # the history opens with one and the same single action offered again and again
    T = rng.randrange(5, 61)
    lrn, desc = make()
    fixed_n = desc.get("fixed_n")
    case = dict(learner=name, desc=desc, action_kind=kind, rounds=T, one_list_edited_in_place=inplace)
    ctx.count("history:" + name, repr((case, rng.random())), T >= 5)
    hist = []
    for t in range(T):
        acts = make_actions(rng, kind, 6)
        if single_start and t < 3 and not fixed_n: acts = make_actions(random.Random(desc.get("seed", 1) if isinstance(desc.get("seed", 1), int) else 1), kind, 6)[:1]
        if fixed_n: acts = (acts + make_actions(rng, kind, 6) * 3)[:fixed_n]; acts = [a for i, a in enumerate(acts) if a not in acts[:i]]
        if fixed_n and len(acts) != fixed_n: continue
        if inplace: shared[:] = acts; acts = shared
        ctxv = rng.choice([None, 1, (1, 2)])
        try:
            pred = lrn.predict(ctxv, acts)
            a, p = pred[0], pred[1]
            info = pred[2] if len(pred) > 2 else {}
            pmf = [lrn.score(ctxv, acts, x) for x in acts] if name != "corral" else None
        except Exception as e:
            ctx.fail([name, "predict-raises", errname(e)], "%s.predict raised %s: %s after %d rounds on %s" % (name, errname(e), str(e)[:100], t, case), dict(case, history=hist[-6:])); return
        hist.append((repr(acts), repr(a), p))
        if not any(a is x or a == x for x in acts): ctx.fail([name, "action-not-offered"], "predict returned %r, offered %r" % (a, acts), dict(case, history=hist[-6:])); return
        i = [k for k, x in enumerate(acts) if x == a][0]
        if pmf is not None:
            if not valid(pmf, len(acts)): ctx.fail([name, "invalid-pmf"], "scores %r over %r are not a distribution" % (pmf, acts), dict(case, history=hist[-6:])); return
            if abs(pmf[i] - p) > 1e-12: ctx.fail([name, "prob-mismatch"], "returned probability %r but score(action) = %r" % (p, pmf[i]), dict(case, history=hist[-6:])); return
        if not (p is not None and p > 0): ctx.fail([name, "zero-probability-action"], "predict returned %r with probability %r" % (a, p), dict(case, history=hist[-6:])); return
        # model correspondence on the learner's own state
        base = getattr(lrn, "_learner", lrn)
        from coba.learners.bandit import make_hashable
        if isinstance(base, BanditEpsilonLearner):
            vals = [base._Q[make_hashable(x)] for x in acts]
            reqs.append((dict(case, round=t), pmf, [0, q(base._epsilon), [q(v) for v in vals]]))
        elif isinstance(base, BanditUCBLearner):
            hs = [make_hashable(x) for x in acts]
            unseen = [h not in base._m for h in hs]
            vals = [0 if u else base._m[h] + base._Avg_R_UCB(h) for u, h in zip(unseen, hs)]
            reqs.append((dict(case, round=t), pmf, [1, unseen, [q(v) for v in vals]]))
        elif isinstance(base, CorralLearner):
            b_acts = info["info"][0]
            idx = [[k for k, x in enumerate(acts) if x == b][0] for b in b_acts]
            cp = [sum(pb for pb, b in zip(base._p_bars, b_acts) if b == x) for x in acts]
            if not valid(cp, len(acts), 2e-4) or abs(cp[i] - p) > 1e-12: ctx.fail([name, "invalid-pmf"], "corral pmf %r / returned prob %r" % (cp, p), dict(case, history=hist[-6:])); return
            reqs.append((dict(case, round=t), cp, [2, len(acts), [q(v) for v in base._p_bars], idx]))
        # learn (on-policy or logged)
        r = rng.choice([0, 0.25, 0.5, 1])
        try:
            if rng.random() < 0.8: la, lp = a, p
            else: la, lp = rng.choice(acts), rng.choice([0.25, 0.5, 1.0, 1e-3])
            if isinstance(base, CorralLearner):
                before = (list(base._ps), list(base._etas))
                lrn.learn(ctxv, la, r, lp, **info)
                ps = base._ps
                if not (all(x > 0 for x in ps) and abs(sum(ps) - 1) < 1e-3): ctx.fail([name, "weights-invalid"], "Corral weights %r after learn" % (ps,), dict(case, history=hist[-6:])); return
                if not (all(x > 0 for x in base._p_bars) and abs(sum(base._p_bars) - 1) < 1e-3): ctx.fail([name, "weights-invalid"], "Corral p_bars %r" % (base._p_bars,), dict(case, history=hist[-6:])); return
                # one lambda explains the whole update (model omd_step)
                loss = [(1 - r) / lp * (b == la) for b in info["info"][0]]
                lam = Fr(loss[0]) - (1 / Fr(ps[0]) - 1 / Fr(before[0][0])) / Fr(before[1][0])
                reqs.append((dict(case, round=t, what="omd"), ps, [3, [q(v) for v in before[0]], [q(v) for v in before[1]], [q(v) for v in loss], s_q(lam)]))
            else:
                lrn.learn(ctxv, la, r, lp)
        except Exception as e:
            ctx.fail([name, "learn-raises", errname(e)], "%s.learn raised %s: %s after %d rounds on %s" % (name, errname(e), str(e)[:100], t, case), dict(case, history=hist[-6:])); return
    ctx.sample(dict(case=case, last=hist[-2:]), cap=5)

def long_corral(ctx):
    """Corral with a small finite horizon T learns for far more than T rounds (nothing stops a user from doing so): learning never raises, the weights stay a strictly
    positive distribution and the learning rates stay positive"""
    from coba.learners import RandomLearner, BanditEpsilonLearner, CorralLearner
    rng = ctx.rng
    for T in (2, 3, 4, 7):
        for mode in ("importance", "off-policy"):
            eta = rng.choice([0.075, 0.5, 2]); rounds = 1000 if ctx.tier != "thorough" else 3000
            case = dict(what="Corral far beyond its horizon", T=T, mode=mode, eta=eta, rounds=rounds); ctx.count("corral-long:T%d" % T, repr(case), True)
            lrn = CorralLearner([RandomLearner(1), BanditEpsilonLearner(0.1, 2)], eta=eta, T=T, mode=mode, seed=3)
            acts = [1, 2, 3]
            try:
                for t in range(rounds):
                    pred = lrn.predict(None, acts); a, p = pred[0], pred[1]; kw = pred[2] if len(pred) > 2 else {}
                    lrn.learn(None, a, [0, 0.5, 1][(t * 7 + acts.index(a)) % 3], p, **(kw if isinstance(kw, dict) else {}))
                    if t % 50 == 0 or t == rounds - 1:
                        ps = list(lrn._ps)
                        if not (all(x > 0 for x in ps) and abs(sum(ps) - 1) < 1e-3): ctx.fail(["corral", "weights-invalid", "long-run"], "Corral(T=%d) weights %r after %d rounds" % (T, ps, t + 1), case); break
                        if not all(e > 0 for e in lrn._etas): ctx.fail(["corral", "learning-rate-zero", "long-run"], "Corral(T=%d) learning rates %r after %d rounds" % (T, list(lrn._etas), t + 1), case); break
            except Exception as e:
                ctx.fail(["corral", "learn-raises", errname(e), "long-run"], "Corral(T=%d, mode=%s) raised %s after %d rounds: %s" % (T, mode, errname(e), t + 1, str(e)[:80]), case)

def run(ctx):
    from coba.learners import RandomLearner, FixedLearner, BanditEpsilonLearner, BanditUCBLearner, CorralLearner, MisguidedLearner
    from coba.context import CobaContext, NullLogger
    CobaContext.logger = NullLogger()
    rng = ctx.rng
    long_corral(ctx)
    def mk_eps(): e = rng.choice([0, 0.05, 0.5, 1]); s = seed_pick(rng); return BanditEpsilonLearner(e, s), dict(epsilon=e, seed=s)
    def mk_ucb(): s = seed_pick(rng); return BanditUCBLearner(s), dict(seed=s)
    def mk_rnd(): s = seed_pick(rng); return RandomLearner(s), dict(seed=s)
    def mk_fix():
        pmf = rng.choice([[1.0], [0.5, 0.5], [0, 1], [0.25, 0.25, 0.5], [0, 0, 1.0]]); s = seed_pick(rng); return FixedLearner(pmf, s), dict(pmf=pmf, seed=s, fixed_n=len(pmf))
    def mk_mis():
        inner, d = rng.choice([mk_eps, mk_ucb])(); sh, sc = rng.choice([0, 1, -1]), rng.choice([1, -1, 2]); return MisguidedLearner(inner, sh, sc), dict(inner=d, shift=sh, scale=sc)
    def mk_cor():
        bases = [rng.choice([mk_eps, mk_ucb, mk_rnd])() for _ in range(rng.choice([1, 2, 3]))]
        eta = rng.choice([0.075, 0.5, 1, 2, 4]); T = rng.choice([math.inf, 10, 1000]); mode = rng.choice(["importance", "off-policy"]); s = seed_pick(rng)
        return CorralLearner([b[0] for b in bases], eta=eta, T=T, mode=mode, seed=s), dict(bases=[b[1] for b in bases], eta=eta, T=str(T), mode=mode, seed=s)
    makers = [("epsilon", mk_eps), ("ucb", mk_ucb), ("random", mk_rnd), ("fixed", mk_fix), ("misguided", mk_mis), ("corral", mk_cor), ("corral", mk_cor)]
    reqs = []
    for k in range(ctx.n(250, 4000)):
        name, mk = makers[k % len(makers)]
        drive(ctx, name, mk, rng, reqs)
    # targeted: the first uniform of a predict being 0 (zero-weight first action must not be chosen)
    for name, mk in (("ucb", lambda: (BanditUCBLearner(c05.seed_for(0, 1)), dict(seed="u=0 at draw 2"))), ("epsilon", lambda: (BanditEpsilonLearner(0, c05.seed_for(0, 1)), dict(epsilon=0, seed="u=0 at draw 2")))):
        for _ in range(5): drive(ctx, name, mk, rng, reqs)
    mouts = ctx.get_model().batch([(16, r[2]) for r in reqs])
    for (case, got, _), mo in zip(reqs, mouts):
        m = [un_q(x) for x in mo]
        if len(m) != len(got) or any(abs(float(a) - float(b)) > 1e-6 * max(1, abs(float(b))) for a, b in zip(got, m)):
            ctx.disagree("C16.run", case, [float(x) for x in got], [float(x) for x in m])

def replay(r):
    print(json.dumps(r, indent=1, default=str)[:3000]); return 0
