"""C20 — InteractionsEncoder: correspondence with the extracted model + combinations_with_replacement oracle."""
from itertools import combinations_with_replacement as cwr, product
from collections import Counter, OrderedDict
from math import prod
from .common import *

LEVEL_TEXT = ("Coq theorem pows_full: for ANY number of features, degree and multiplication, level d of the modelled _pows is the list of products of "
              "all combinations with replacement, once each, in lexicographic order; cross = full outer product. The offsets update the source uses is "
              "recognised by the translator (Generated/C20_gen.v); encode (dense/sparse/str/scalar/None/absent) is tied by correspondence with the extracted model "
              "and checked against an itertools oracle.")
TRUSTED = ["Coq 8.16.1 kernel (coqc); vm_compute for the refutation witness",
           "translator harness/translate/c20.py: recognises the _pows loop body textually (ast.unparse) and fails closed on any other shape",
           "extraction ExtrOcamlBasic only + ocaml/driver.ml", "harness/c20.py: generator, make_dict/str(k) key rendering, itertools oracle",
           "modelled not verified: Python float arithmetic (inputs are distinct primes so products are exact ints), dict insertion/overwrite semantics (applied by the harness to the model's key/value pairs)"]
ASSUMPTIONS = ["feature values are integers (distinct primes), so every monomial has a unique exact value",
               "sparse keys are chosen so that distinct feature combinations have distinct concatenated keys (otherwise the mapping cannot hold them apart by design)"]
RULE = ("term lists over {x,a} up to degree 5 with numeric constants; namespaces: dense prime vectors (0-6), scalars, None, absent, sparse dicts, str-valued features; "
        "non-trivial = at least one term of degree>=1 with a non-empty namespace; distinct by (terms, inputs)")

BIG = [1000000007, 998244353, 2147483647, 1000000000039, 4294967311, 999999937, 100000000000000003]
PRIMES = [2, 3, 5, 7, 11, 13, 17, 19, 23, 29, 31, 37, 41, 43]

def fingerprints():
    return fingerprint_defs('coba/encodings.py', ['InteractionsEncoder'])

def gen_terms(rng):
    ts = []
    for _ in range(rng.choice([1, 1, 2, 3, 4])):
        k = rng.random()
        if k < 0.15: ts.append(rng.choice([0, 1, 2, -3]))
        else:
            deg = rng.choice([1, 1, 2, 2, 3, 3, 4, 5])
            kind = rng.random()
            if kind < 0.35: t = "x" * deg
            elif kind < 0.5: t = "a" * deg
            else: t = "".join(rng.choice("xa") for _ in range(deg))
            if t not in ts: ts.append(t)     # a term listed twice is one term (documented dedupe); not generated
    return ts

def gen_ns(rng, mode):
    """mode: 'dense' or 'sparse' hint"""
    k = rng.random()
    ps = rng.sample(PRIMES, len(PRIMES))
    if rng.random() < 0.12: ps = rng.sample(BIG, len(BIG)) + ps      # integer features whose products are far beyond 2**53: the expansion is exact, not a binary64 approximation
    if k < 0.08: return None
    if k < 0.14: return "ABSENT"
    if k < 0.22: return rng.choice([ps[0], ps[1], 0, 1])             # scalar (0 is a legal feature value)
    if mode == "dense" or k < 0.5:
        out = ps[:rng.choice([0, 1, 2, 3, 4, 4, 5, 6])]
        if out and rng.random() < 0.15: out[rng.randrange(len(out))] = 0
        return out
    if k < 0.75:
        keys = rng.sample(["p", "q", "r", "s", "t"], rng.choice([0, 1, 2, 3, 4]))
        return {kk: (ps[i] if rng.random() < 0.8 else rng.choice(["u", "v"])) for i, kk in enumerate(keys)}
    if k < 0.85: return rng.choice(["u", "v", "w"])              # str scalar
    n = rng.choice([1, 2, 3, 4])
    return [(ps[i] if rng.random() < 0.6 else rng.choice(["u", "v"])) for i in range(n)]   # dense with strings

def is_sparse_val(v):
    if isinstance(v, (str, dict)): return True
    if isinstance(v, (list, tuple)): return any(isinstance(f, (str, dict)) for f in v)
    return False

def features_dense(v):
    if v is None or v == "ABSENT": return []
    return list(v) if isinstance(v, (list, tuple)) else [v]

def features_sparse(v):
    """[(key string, value)] as make_dict would name them"""
    if v is None or v == "ABSENT": return []
    if isinstance(v, dict): return [(str(k), y) for k, y in v.items()]
    if isinstance(v, (list, tuple)): return [(str(i), y) for i, y in enumerate(v)]
    return [("0", v)]

def term_struct(t):
    return list(OrderedDict(Counter(t)).items())

def expected(terms, nsv):
    """model-independent statement of the property"""
    const = sum(t for t in terms if not isinstance(t, str))
    strs = [t for t in terms if isinstance(t, str)]
    sparse = any(is_sparse_val(v) for v in nsv.values() if not (isinstance(v, str) and v == "ABSENT"))
    if not sparse:
        out = []
        for t in strs:
            blocks = [[prod(c) for c in cwr(features_dense(nsv.get(ns)), p)] for ns, p in term_struct(t)]
            out += [prod(c) for c in product(*blocks)] if all(blocks) else []
        return ([const] if const else []) + out
    out = {}
    n_expected = 0
    for t in strs:
        blocks = []
        for ns, p in term_struct(t):
            fs = [(ns + k + (y if isinstance(y, str) else ""), 1 if isinstance(y, str) else y) for k, y in features_sparse(nsv.get(ns))]
            blocks.append([("".join(k for k, _ in c), prod(v for _, v in c)) for c in cwr(fs, p)])
        if all(blocks):
            for c in product(*blocks):
                key = "".join(k for k, _ in c); n_expected += 1
                if key in out and out[key] != prod(v for _, v in c): return "AMBIGUOUS"
                out[key] = prod(v for _, v in c)
    if const: out["const"] = const
    return out

def wire(terms, nsv):
    const = sum(t for t in terms if not isinstance(t, str))
    strs = [t for t in terms if isinstance(t, str)]
    sparse = any(is_sparse_val(v) for v in nsv.values() if not (isinstance(v, str) and v == "ABSENT"))
    wt = [[[ord(ns), p] for ns, p in term_struct(t)] for t in strs]
    if not sparse:
        return [0, const, wt, [[ord(ns), features_dense(v)] for ns, v in nsv.items()]]
    return [1, const, wt, [[ord(ns), [[s_str(k), isinstance(y, str), s_str(y) if isinstance(y, str) else [], 0 if isinstance(y, str) else y]
                                      for k, y in features_sparse(v)]] for ns, v in nsv.items()]]

_ENC = {}
def run_impl(terms, nsv, reuse=None):
    """reuse: a key; calls with the same key share one InteractionsEncoder object (an encoder is used for many calls)"""
    from coba.encodings import InteractionsEncoder
    kw = {ns: v for ns, v in nsv.items() if not (isinstance(v, str) and v == "ABSENT")}
    try:
        if reuse is None: enc = InteractionsEncoder(terms)
        else:
            if reuse not in _ENC: _ENC.clear(); _ENC[reuse] = InteractionsEncoder(terms)
            enc = _ENC[reuse]
        return enc.encode(**kw)
    except Exception as e:
        return ("EXC", errname(e), str(e)[:80])

def check(ctx, cases, kind):
    model = ctx.get_model()
    cases = [c if len(c) == 3 else (c[0], c[1], None) for c in cases]
    mouts = model.batch([(20, wire(t, n)) for t, n, _ in cases])
    for (terms, nsv, reuse), mo in zip(cases, mouts):
        case = dict(terms=terms, namespaces={k: v for k, v in nsv.items()}, call_on_shared_encoder=reuse)
        got = run_impl(terms, nsv, reuse)
        exp = expected(terms, nsv)
        if exp == "AMBIGUOUS": continue
        nontrivial = any(isinstance(t, str) and all(features_dense(nsv.get(ns)) or features_sparse(nsv.get(ns)) for ns in set(t)) for t in terms)
        ctx.count(kind, repr(case), nontrivial)
        maxdeg = max([max(Counter(t).values()) for t in terms if isinstance(t, str)] or [0])
        ctx.dist["maxpow=%d" % maxdeg] = ctx.dist.get("maxpow=%d" % maxdeg, 0) + 1
        ctx.dist["sparse" if isinstance(exp, dict) else "dense"] = ctx.dist.get("sparse" if isinstance(exp, dict) else "dense", 0) + 1
        ctx.sample(dict(case=case, impl=str(got)[:200]))
        # oracle
        if isinstance(got, tuple) and got and got[0] == "EXC":
            ctx.fail(["raises", got[1]], "encode raised %s: %s" % (got[1], got[2]), case); continue
        if isinstance(exp, dict):
            if not isinstance(got, dict) or dict(got) != exp:
                ctx.fail(["sparse", "wrong-mapping"], "encode -> %s, expected %s" % (str(got)[:300], str(exp)[:300]), case); continue
        else:
            if list(got) != exp:
                nvals = max([len(features_dense(v)) for v in nsv.values()] or [0])
                ctx.fail(["dense", "wrong-monomials", "deg>=3" if maxdeg >= 3 else "deg<3"], "encode -> %d terms %s, expected %d %s" % (len(got), str(got)[:200], len(exp), str(exp)[:200]), case); continue
        # correspondence
        if isinstance(got, dict):
            md = {}
            for k, v in mo: md[un_str(k)] = v
            if list(md.items()) != list(got.items()): ctx.disagree("C20.run(sparse)", case, str(list(got.items()))[:400], str(list(md.items()))[:400])
        else:
            if list(got) != mo: ctx.disagree("C20.run(dense)", case, str(got)[:400], str(mo)[:400])

def systematic():
    cs = []
    for n in range(0, 7):
        for d in range(1, 6):
            if n ** d > 20000: continue
            cs.append((["x" * d], {"x": PRIMES[:n], "a": [43]}))
    for t in ["xa", "ax", "xxa", "axx", "xax", "xxaa", "xaxa", "aaxx", "xxxa", "xxxaa"]:
        cs.append(([t], {"x": [2, 3, 5, 7], "a": [11, 13, 17]}))
        cs.append(([t, "x", 1], {"x": {"p": 2, "q": 3, "r": 5, "s": 7}, "a": ["u", 11]}))
    cs.append((["xxx"], {"x": {"p": 2, "q": 3, "r": 5, "s": 7}}))
    cs.append(([1, 1, "x", "a"], {"x": [2], "a": [3]}))           # fixed finding C20-constants-drop-terms
    cs.append((["xxx"], {"x": [2, 3, 5, 7]}))                      # fixed finding C20-pows-offsets
    cs.append((["xa", "a"], {"x": [1, 2]}))                      # absent namespace
    cs.append((["xa", "x"], {"x": [2, 3], "a": None}))
    # wide dense namespaces next to a string / sparse one (the output is a mapping whose positions are named by their index): no feature is lost at any width
    for width in (999, 1000, 1001, 1500, 4097):
        cs.append((["xa"], {"x": list(range(2, width + 2)), "a": "u"}))
        cs.append((["x", "a"], {"x": list(range(2, width + 2)), "a": {"p": 3}}))
    return cs

def run(ctx):
    check(ctx, systematic(), "systematic")
    rng = ctx.rng
    cases = []
    for i in range(ctx.n(600, 8000)):
        mode = rng.choice(["dense", "dense", "sparse"])
        terms = gen_terms(rng)
        nsv = {"x": gen_ns(rng, mode), "a": gen_ns(rng, mode)}
        cases.append((terms, nsv, i))
        # the same encoder object is used again: other values, same feature names in another order, other shapes
        for _ in range(rng.choice([0, 1, 2, 3])):
            nxt = {}
            for ns, v in nsv.items():
                k = rng.random()
                if isinstance(v, dict) and v and k < 0.6:
                    ks = list(v); rng.shuffle(ks); ps = rng.sample(PRIMES, len(ks))
                    nxt[ns] = {kk: (ps[j] if not isinstance(v[kk], str) else v[kk]) for j, kk in enumerate(ks)}
                elif isinstance(v, list) and k < 0.6: nxt[ns] = [(p if not isinstance(o, str) else o) for o, p in zip(v, rng.sample(PRIMES, len(v)))]
                else: nxt[ns] = gen_ns(rng, mode)
            nsv = nxt
            cases.append((terms, nsv, i))
    check(ctx, cases, "random")

def replay(r):
    c = r["case"]
    got = run_impl(c["terms"], c["namespaces"]); exp = expected(c["terms"], c["namespaces"])
    print("impl:", got); print("expected:", exp)
    return 0 if (dict(got) == exp if isinstance(exp, dict) else list(got) == exp) else 1
