"""C11 — Scale / Impute: correspondence with the exact-rational model + Fraction oracle."""
import math, copy
from fractions import Fraction as Fr
from statistics import median as _median
from .common import *

LEVEL_TEXT = ("Coq theorems (C11/Props.v): min/max are members and bounds of the window; min/minmax maps the window into [0,1]; Scale changes exactly the numeric cells of scaled columns to "
              "(x+shift)*scale with the statistics of the first `using` rows and nothing else; Impute changes no non-missing value, fills missing values with the window statistic and appends the "
              "same number of indicator cells to every row. Dense and sparse Scale/Impute are tied by correspondence of the extracted exact-rational model with the code; an independent Fraction "
              "oracle states the property on the implementation (incl. scalar contexts, std, Environments.impute/scale lists, filter objects reused on other data).")
TRUSTED = ["Coq 8.16.1 kernel (coqc)", "extraction + ocaml/driver.ml", "harness/c11.py (generator, Fraction oracle, tolerance 1e-9)",
           "modelled not verified: binary64 rounding (model is exact rational; inputs are small integers/halves), statistics.fmean/median/stdev/mode, sqrt for std (oracle only), in-place mutation of the Mutable copies"]
ASSUMPTIONS = ["missing = None; NaN is not generated", "each feature column is either numeric (+missing) or string (+missing); mixed-type columns only go through the model correspondence",
               "sparse Scale uses shift=0 (the filter rejects anything else by design)"]
RULE = ("0-8 interactions with dense (1-4 columns), sparse (keys a-d) or scalar contexts over small ints/halves/strings/None, missing values anywhere incl. the first row, "
        "every shift/scale/stat, using in {None,1,2,N-1,N,N+3}, indicator on/off, each filter object applied to a second different sequence; non-trivial = N>=2 with a numeric feature")

KEYS = ["a", "b", "c", "d"]
def fingerprints():
    fp = fingerprint_defs('coba/environments/filters.py', ['Scale', 'Impute', 'Mutable'])
    fp.update(fingerprint_defs('coba/statistics.py', ['iqr', 'percentile']))
    fp.update(fingerprint_defs('coba/environments/core.py', ['Environments.scale', 'Environments.impute']))
    return fp

TOL = [1e-9]      # binary64 rounding allowance; a feature of magnitude 1.7e9 carries an absolute error of about 2e-7 through (x + shift), so cases with such a feature are compared with 1e-6
def gen_col(rng, N, kind):
    out = []
    for _ in range(N):
        k = rng.random()
        if k < 0.18: out.append(None)
        elif kind == "num": out.append(rng.choice([0, 1, 2, 3, 5, -1, 0.5, 1.5, 2.5, 4.0]))
        elif kind == "const": out.append(2)
        elif kind == "big": out.append(1_700_000_000 + rng.choice([0, 1, 2, 3, 5, 8, 13, 60]))      # a time-stamp like feature: large mean, small spread
        else: out.append(rng.choice(["u", "v", "w"]))
    return out

def gen_rows(rng, shape):
    N = rng.choice([0, 1, 2, 3, 4, 6, 8])
    if shape == "dense":
        kinds = [rng.choice(["num", "num", "num", "str", "const", "big"]) for _ in range(rng.randrange(1, 5))]
        cols = [gen_col(rng, N, k) for k in kinds]
        return [[c[i] for c in cols] for i in range(N)], kinds
    if shape == "sparse":
        kinds = {k: rng.choice(["num", "num", "str"]) for k in KEYS}
        rows = []
        for _ in range(N):
            ks = rng.sample(KEYS, rng.randrange(0, 5))
            rows.append({k: gen_col(rng, 1, kinds[k])[0] for k in ks})
        return rows, kinds
    col = gen_col(rng, N, "num")
    return col, ["num"]

def mk(rows):
    return [{"context": copy.deepcopy(r), "actions": [0, 1], "rewards": [1, 0], "tag": i} for i, r in enumerate(rows)]

# ------------------------------------------------------------------ oracle (Fractions)
def fr(x): return Fr(x) if not isinstance(x, (str, type(None))) else x
def is_num(x): return isinstance(x, (int, float, Fr)) and not isinstance(x, bool)

def o_median(vs): vs = sorted(vs); n = len(vs); return vs[n // 2] if n % 2 else (vs[n // 2 - 1] + vs[n // 2]) / 2
def o_pct(vs, p):
    if len(vs) == 1: return vs[0]
    i = p * (len(vs) - 1); I = int(i)
    return vs[I] if i == I else (1 - (i - I)) * vs[I] + (i - I) * vs[I + 1]

def o_shift_scale(shift, scale, vals):
    """vals: Fractions of the window (missing removed). returns (shift, scale) or None, std as float"""
    if not vals and (isinstance(shift, str) or scale in ("minmax", "maxabs", "std")): return None
    s = {"min": lambda: -min(vals), "mean": lambda: -sum(vals) / len(vals), "median": lambda: -o_median(vals)}.get(shift, lambda: Fr(shift))()
    if not isinstance(scale, str): return s, Fr(scale)
    if scale == "minmax": den = max(vals) - min(vals)
    elif scale == "iqr": den = Fr(0) if len(vals) <= 1 else o_pct(sorted(vals), Fr(3, 4)) - o_pct(sorted(vals), Fr(1, 4))
    elif scale == "maxabs": den = max(abs(v + s) for v in vals)
    else:
        if len(vals) < 2: return None
        m = sum(vals) / len(vals); den = math.sqrt(sum((v - m) ** 2 for v in vals) / (len(vals) - 1))
    return s, (1 if den < 1e-6 else 1 / den)

def actual_kinds(shape, rows, kinds):
    """a feature is a string feature iff a string occurs in it (a column of only missing values has no type)"""
    if shape == "dense": return ["str" if any(isinstance(r[j], str) for r in rows) else "num" for j in range(len(kinds))]
    if shape == "sparse": return {k: ("str" if any(isinstance(r.get(k), str) for r in rows) else "num") for k in KEYS}
    return kinds

def o_scale(shape, rows, kinds, shift, scale, using):
    kinds = actual_kinds(shape, rows, kinds)
    N = len(rows); w = rows[:using] if using is not None else rows
    out = copy.deepcopy(rows)
    if N == 0: return out
    if shape == "dense":
        for j, kind in enumerate(kinds):
            if kind == "str": continue
            ss = o_shift_scale(shift, scale, [Fr(r[j]) for r in w if r[j] is not None])
            if ss is None: continue
            for r in out:
                if r[j] is not None: r[j] = (Fr(r[j]) + ss[0]) * ss[1]
    elif shape == "sparse":
        for k in set().union(*[set(r) for r in w]) if w else []:
            if kinds[k] == "str": continue
            ss = o_shift_scale(shift, scale, [Fr(r.get(k, 0)) for r in w if r.get(k, 0) is not None])
            if ss is None: continue
            for r in out:
                if k in r and r[k] is not None: r[k] = (Fr(r[k]) + ss[0]) * ss[1]
    else:
        ss = o_shift_scale(shift, scale, [Fr(v) for v in w if v is not None])
        if ss is not None: out = [None if v is None else (Fr(v) + ss[0]) * ss[1] for v in out]
    return out

def o_stat(stat, vals):
    vals = [v for v in vals if v is not None]
    if not vals: return None
    if stat == "mode":
        best = vals[0]
        for v in vals:
            if vals.count(v) > vals.count(best): best = v
        return fr(best)
    if any(isinstance(v, str) for v in vals): return None
    vals = [Fr(v) for v in vals]
    return sum(vals) / len(vals) if stat == "mean" else o_median(vals)

def o_impute(shape, rows, kinds, stat, indicator, using):
    N = len(rows); w = rows[:using] if using is not None else rows
    # sparse: an absent key counts as 0, so the window always yields values; the feature's type is what the window shows
    kinds = actual_kinds(shape, w if shape == "sparse" else rows, kinds)
    out = copy.deepcopy(rows)
    if N == 0: return out
    if shape == "dense":
        flags = []
        for j, kind in enumerate(kinds):
            if kind == "str" and stat != "mode": continue
            v = o_stat(stat, [r[j] for r in w])
            if v is None: continue
            if indicator and any(r[j] is None for r in w): flags.append(j)
            for r in out:
                if r[j] is None: r[j] = v
        for r, orig in zip(out, rows): r.extend([1 if orig[j] is None else 0 for j in flags])
    elif shape == "sparse":
        keys = list(dict.fromkeys(k for r in w for k in r))
        flags = []
        for k in keys:
            if kinds[k] == "str" and stat != "mode": continue
            col = [r[k] for r in w if k in r]
            v = o_stat(stat, col + [0] * (len(w) - len(col)))
            if v is None: continue
            if indicator and any(c is None for c in col): flags.append(k)
            for r in out:
                if k in r and r[k] is None: r[k] = v
        for r, orig in zip(out, rows):
            for k in flags: r[k + "_is_missing"] = 1 if (k in orig and orig[k] is None) else 0
    else:
        v = o_stat(stat, w)
        flag = indicator and any(x is None for x in w)
        # scalar contexts: the indicator is added whenever the window has a missing value, statistic or not (pinned by test_impute_mode_None_indicator)
        out = [[(v if x is None else x), (1 if x is None else 0)] if flag else (v if x is None else x) for x in rows]
    return out

def close(a, b):
    if isinstance(a, str) or isinstance(b, str) or a is None or b is None: return a == b
    if isinstance(a, (list, tuple)) and isinstance(b, (list, tuple)): return len(a) == len(b) and all(close(x, y) for x, y in zip(a, b))
    if isinstance(a, dict) and isinstance(b, dict): return a.keys() == b.keys() and all(close(a[k], b[k]) for k in a)
    if isinstance(a, (list, tuple, dict)) or isinstance(b, (list, tuple, dict)): return False
    return abs(float(a) - float(b)) <= TOL[0] * max(1.0, abs(float(b)))

# ------------------------------------------------------------------ wire
def w_cell(v):
    if v is None: return [1]
    if isinstance(v, str): return [2, ord(v)]
    return [0, s_q(Fr(v))]
def u_cell(c):
    if c[0] == 1: return None
    if c[0] == 2: return chr(c[1])
    return un_q(c[1])
SH = {"min": [1], "mean": [2], "median": [3]}
SC = {"minmax": [1], "iqr": [2], "maxabs": [3]}
def wire(op, shape, rows, a, b, using):
    if op == "scale":
        hd = [0 if shape == "dense" else 1, SH.get(a, [0, s_q(Fr(a))] if not isinstance(a, str) else None), SC.get(b, [0, s_q(Fr(b))] if not isinstance(b, str) else None), s_opt(using)]
    else:
        hd = [2 if shape == "dense" else 3, ["mean", "median", "mode"].index(a), bool(b), s_opt(using)]
    if shape == "dense": body = [[w_cell(v) for v in r] for r in rows]
    else: body = [[[KEYS.index(k), w_cell(v)] for k, v in r.items()] for r in rows]
    return hd + [body]
def unwire(shape, m):
    if shape == "dense": return [[u_cell(c) for c in r] for r in m]
    out = []
    for r in m:
        d = {}
        for k, c in r: d[KEYS[k] if k < 1000 else KEYS[k - 1000] + "_is_missing"] = u_cell(c)
        out.append(d)
    return out

def run_filter(flt, rows):
    inter = mk(rows)
    out = list(flt.filter(iter(inter)))
    ctxs = [o["context"] for o in out]
    untouched = all(o.get("tag") == i and o["actions"] == [0, 1] and o["rewards"] == [1, 0] for i, o in enumerate(out)) and len(out) == len(rows)
    src_ok = all(inter[i]["context"] == rows[i] for i in range(len(rows)))
    return ctxs, untouched, src_ok

def one_case(ctx, rng, kind_label):
    import coba.environments.filters as F
    shape = rng.choice(["dense", "dense", "sparse", "scalar"])
    rows, kinds = gen_rows(rng, shape)
    N = len(rows)
    using = rng.choice([None, None, 1, 2, max(N - 1, 1), max(N, 1), N + 3])
    op = rng.choice(["scale", "impute"])
    if op == "scale":
        a = 0 if shape == "sparse" else rng.choice([0, 1, -2.5, "min", "mean", "median"])
        b = rng.choice([1, 2, "minmax", "iqr", "maxabs", "std"])
        flt = F.Scale(a, b, "context", using); exp_f = lambda rs, ks: o_scale(shape, rs, ks, a, b, using)
    else:
        a = rng.choice(["mean", "median", "mode"]); b = rng.random() < 0.6
        flt = F.Impute(a, b, using); exp_f = lambda rs, ks: o_impute(shape, rs, ks, a, b, using)
    case = dict(op=op, shape=shape, a=a, b=b, using=using, rows=rows)
    seqs = [(rows, kinds)]
    if rng.random() < 0.5:      # the same filter object meets other data afterwards (Environments.filter shares it)
        rows2, kinds2 = gen_rows(rng, shape)
        if shape != "dense" or (rows2 and rows and len(rows2[0]) == len(rows[0])) or not rows2: seqs.append((rows2, kinds2))
    reqs = []
    for si, (rs, ks) in enumerate(seqs):
        TOL[0] = 1e-6 if "big" in (ks if isinstance(ks, list) else list(ks.values())) else 1e-9
        c = dict(case, rows=rs, sequence_no=si)
        nontrivial = len(rs) >= 2 and ("num" in (ks if isinstance(ks, list) else ks.values()))
        ctx.count(kind_label + ":" + op + ":" + shape, repr(c), nontrivial)
        try:
            got, untouched, src_ok = run_filter(flt, rs)
        except Exception as e:
            ctx.fail([op, "raises", errname(e), shape], "%s raised %s: %s on %s" % (op, errname(e), str(e)[:80], c), c); continue
        exp = exp_f(rs, ks)
        mixed = False
        ok = close(got, exp)
        if not untouched: ctx.fail([op, "other-fields-changed"], "actions/rewards/extra fields or the number/order of interactions changed", c); continue
        if not src_ok: ctx.fail([op, "source-modified"], "the filter modified the contexts it was given", c); continue
        if not ok:
            ctx.fail([op, "wrong-values", shape, "seq%d" % min(si, 1)], "%s(%r,%r,using=%r) on %s -> %s, expected %s" % (op, a, b, using, rs, got, [[str(x) if isinstance(x, Fr) else x for x in r] if isinstance(r, list) else r for r in exp] if shape == "dense" else exp), c); continue
        ctx.sample(dict(case=c, impl=str(got)[:200]), cap=5)
        if shape != "scalar" and b != "std":
            reqs.append((c, got, wire(op, shape, rs, a, b, using)))
    return reqs

def env_wrappers(ctx, rng):
    """Environments.impute(list) applies the statistics in order; Environments.scale == Scale"""
    import coba
    from coba.primitives import Environment
    import coba.environments.filters as F
    class E(Environment):
        def __init__(self, rows): self.rows = rows
        def read(self): return mk(self.rows)
    for _ in range(20):
        rows, kinds = gen_rows(rng, "dense")
        stats = rng.sample(["mean", "median", "mode"], 2)
        c = dict(op="Environments.impute", stats=stats, rows=rows)
        ctx.count("env-wrapper", repr(c), len(rows) >= 2)
        try:
            got = [i["context"] for i in coba.Environments(E(rows)).impute(stats, indicator=False)[0].read()]
            exp = [i["context"] for i in F.Impute(stats[1], False).filter(F.Impute(stats[0], False).filter(iter(mk(rows))))]
            if not close(got, exp): ctx.fail(["Environments.impute", "list"], "impute(%s) -> %s, sequential application gives %s" % (stats, got, exp), c)
            got = [i["context"] for i in coba.Environments(E(rows)).scale("min", "minmax")[0].read()]
            exp = [i["context"] for i in F.Scale("min", "minmax").filter(iter(mk(rows)))]
            if not close(got, exp): ctx.fail(["Environments.scale"], "scale differs from Scale filter", c)
        except Exception as e:
            ctx.fail(["Environments", "raises", errname(e)], "%s: %s" % (errname(e), str(e)[:100]), c)

def corpus_cases(ctx):
    import coba.environments.filters as F
    out = []
    fixed = [("impute", "dense", "mean", True, None, [[None, 1], [3.0, 2], [None, 4]], ["num", "num"]),
             ("impute", "sparse", "mean", True, None, [{"a": None, "b": 1}, {"a": 3}, {"b": None, "c": None}], {k: "num" for k in KEYS}),
             ("impute", "sparse", "mean", True, 1, [{"a": 1}, {"b": None}], {k: "num" for k in KEYS}),
             ("scale", "dense", 0, "minmax", None, [[1.5, None], [3.0, 2], [None, 4]], ["num", "num"]),
             ("scale", "dense", 0, "maxabs", None, [[1.5], [3.0]], ["num"])]
    reqs = []
    for op, shape, a, b, using, rows, kinds in fixed:
        flt = F.Scale(a, b, "context", using) if op == "scale" else F.Impute(a, b, using)
        c = dict(op=op, shape=shape, a=a, b=b, using=using, rows=rows)
        ctx.count("corpus", repr(c))
        try:
            got, _, _ = run_filter(flt, rows)
        except Exception as e:
            ctx.fail([op, "raises", errname(e), shape], "%s raised %s on %s" % (op, errname(e), c), c); continue
        exp = o_scale(shape, rows, kinds, a, b, using) if op == "scale" else o_impute(shape, rows, kinds, a, b, using)
        if not close(got, exp): ctx.fail([op, "wrong-values", shape, "seq0"], "%s -> %s expected %s" % (c, got, exp), c); continue
        reqs.append((c, got, wire(op, shape, rows, a, b, using)))
    return reqs

def run(ctx):
    reqs = corpus_cases(ctx)
    for _ in range(ctx.n(1500, 20000)): reqs += one_case(ctx, ctx.rng, "random")
    env_wrappers(ctx, ctx.rng)
    mouts = ctx.get_model().batch([(11, r[2]) for r in reqs])
    for (c, got, _), mo in zip(reqs, mouts):
        m = unwire(c["shape"], mo)
        TOL[0] = 1e-6 if "17000000" in repr(c.get("rows")) else 1e-9
        if not close(got, m): ctx.disagree("C11.run:" + c["op"] + ":" + c["shape"], c, str(got)[:400], str(m)[:400])

def replay(r):
    print(json.dumps(r, indent=1, default=str)[:3000]); return 0
