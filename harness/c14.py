"""C14 — SupervisedSimulation: model correspondence (actions, reward matrix) + direct recomputation oracle, incl. CSV/ARFF/LibSVM/Manik sources."""
from fractions import Fraction as Fr
from .common import *

LEVEL_TEXT = ("Coq theorems (C14/Props.v): the action set is the sorted set of distinct labels (no duplicates, exactly the data's labels); the classification reward is 1 at the label and 0 elsewhere and the label is "
              "offered, hence it is the unique best action; regression reward = -|a-y| (maximal exactly at y); multi-label reward of a single-label action = Jaccard overlap 1/|Y| or 0; one interaction per example. "
              "The extracted model is compared with SupervisedSimulation on (X,Y) sets; a recomputation oracle checks contexts (features without the label), actions, rewards, count and order end-to-end "
              "for CSV, ARFF, LibSVM and Manik sources, label by index/header, c/r/m/inferred, with and without take.")
TRUSTED = ["Coq 8.16.1 kernel (coqc)", "extraction + ocaml/driver.ml", "harness/c14.py (generator, text printers for CSV/ARFF/LibSVM/Manik, oracle)",
           "modelled not verified: the readers (C12), LabelRows/feats (C13), Reservoir (C09) are used as they are and checked end-to-end by the oracle; labels are mapped to integers by rank for the model; tensors are not covered"]
ASSUMPTIONS = ["for ARFF nominal labels the action set is the declared level list in declared order (the header is the data's label set)", "take draws a seeded reservoir sample: the oracle checks it is a sub-multiset of the examples of the right size, deterministic across reads"]
RULE = ("example sets of 1-8 rows with dense/sparse/scalar features; labels: ints, strings, one-element lists, multi-label lists, numeric (regression); label types c/r/m/None; "
        "text sources with label column first/middle/last by index or header; non-trivial = at least 2 examples and 2 distinct labels")

def fingerprints():
    fp = fingerprint_defs('coba/environments/supervised.py', ['SupervisedSimulation'])
    fp.update(fingerprint_defs('coba/primitives.py', ['BinaryReward', 'HammingReward', 'L1Reward', 'extract_shape']))
    return fp

def plain(c):
    if hasattr(c, "items") and not isinstance(c, dict): return dict(c.items())
    if isinstance(c, dict): return dict(c)
    if isinstance(c, (list, tuple)) or hasattr(c, "__iter__") and not isinstance(c, str): return list(c)
    return c

def read_env(env):
    out = []
    for i in env.read():
        acts = list(i["actions"])
        c = i["context"]
        named = None
        if hasattr(c, "headers") and not isinstance(c, dict):
            try: named = {nm: c[nm] for nm in c.headers}
            except Exception as e: named = "raises %s" % type(e).__name__
        out.append(dict(context=plain(c), named=named, actions=acts, rewards=[i["rewards"](a) for a in acts], rfun=i["rewards"]))
    return out

def make_env(rng, args, case=None, via=None):
    """the same environment through the constructor or through Environments.from_supervised (the property's observation point), arguments positional or by keyword"""
    from coba.environments import SupervisedSimulation, Environments
    names = ["source", "label_col", "label_type", "take"] if hasattr(args[0], "read") else ["X", "Y", "label_type"]
    args = list(args)
    while args and args[-1] is None and len(args) > (1 if names[0] == "source" else 2): args.pop()
    npos = rng.randrange(1 if names[0] == "source" else 2, len(args) + 1)
    pos, kw = args[:npos], {names[i]: args[i] for i in range(npos, len(args))}
    via = via or rng.choice(["constructor", "from_supervised"])
    if case is not None: case["via"] = via; case["keywords"] = sorted(kw)
    return SupervisedSimulation(*pos, **kw) if via == "constructor" else Environments.from_supervised(*pos, **kw)[0]

def expect(label_type, Y):
    """(actions, reward(y, a)) by the property's definition"""
    delist = lambda l: l[0] if isinstance(l, list) else l
    if label_type == "r": return [], (lambda y, a: -abs(a - y))
    if label_type == "m":
        acts = sorted(set(x for y in Y for x in y))
        return acts, (lambda y, a: Fr(len({a} & set(y)), len({a} | set(y))))
    acts = sorted(set(map(delist, Y)))
    return acts, (lambda y, a: 1 if a == delist(y) else 0)

def check_xy(ctx, n_cases):
    from coba.environments import SupervisedSimulation
    rng = ctx.rng
    reqs, metas = [], []
    for _ in range(n_cases):
        n = rng.randrange(1, 9)
        shape = rng.choice(["dense", "sparse", "scalar"])
        X = [[rng.randrange(0, 9) for _ in range(3)] if shape == "dense" else ({k: rng.randrange(1, 9) for k in rng.sample("abc", rng.randrange(1, 4))} if shape == "sparse" else rng.randrange(0, 9)) for _ in range(n)]
        lk = rng.choice(["int", "str", "list1", "multi", "multi-int", "real", "cat", "bigint", "frac"])
        if lk == "int": Y = [rng.randrange(0, 4) for _ in range(n)]; lt = rng.choice(["c", "c", None, "r"])
        elif lk == "str": Y = [rng.choice(["p", "q", "rr", "10", "11"]) for _ in range(n)]; lt = rng.choice(["c", None])
        elif lk == "list1": Y = [[rng.choice(["p", "q", "rr"])] for _ in range(n)]; lt = "c"
        elif lk == "cat":      # Categorical labels whose level lists are not one shared object (two files, hand-built data): the same names, possibly in another order
            from coba.primitives import Categorical
            LV = ["n", "y", "m"]; Y = []
            for _ in range(n):
                lv = list(LV)
                if rng.random() < 0.5: rng.shuffle(lv)
                Y.append(Categorical(rng.choice(LV), lv))
            lt = "c"
        elif lk == "multi": Y = [rng.sample(["10", "11", "p", "q"], rng.randrange(1, 4)) for _ in range(n)]; lt = "m"
        elif lk == "multi-int": Y = [rng.sample([1, 2, 3, 4], rng.randrange(1, 4)) for _ in range(n)]; lt = "m"
        elif lk == "bigint": Y = [rng.choice([2**53 + 1, 1700000000123456789, 10**18 + 3, 2**53 + 3, -(2**60) - 1]) + rng.randrange(0, 3) for _ in range(n)]; lt = rng.choice(["r", None])      # regression labels a double cannot hold (nanosecond time stamps, counters)
        elif lk == "frac": Y = [Fr(rng.randrange(1, 9), rng.choice([3, 7, 9])) for _ in range(n)]; lt = "r"      # exact rational labels
        else: Y = [rng.choice([0.5, 1.5, 2, 3.25]) for _ in range(n)]; lt = rng.choice(["r", None])
        eff = lt or ("r" if isinstance(Y[0], (int, float)) else "c")
        case = dict(X=X, Y=[str(y) for y in Y] if lk == "frac" else Y, label_type=lt)
        ctx.count("xy:" + lk + ":" + str(lt), repr(case), n >= 2 and len(set(map(repr, Y))) >= 2)
        try:
            got = read_env(make_env(rng, (X, Y, lt), case, via="constructor" if lk == "cat" else None))      # (Environments finalises categorical actions to one-hot codes: C10)
        except Exception as e:
            ctx.fail(["xy", "raises", errname(e), eff], "SupervisedSimulation(X,Y,%r) raised %s: %s on %s" % (lt, errname(e), str(e)[:100], case), case); continue
        acts, rew = expect(eff, Y)
        if lk == "cat": acts = list(Y[0].levels)      # a categorical label offers every declared level, in the order the first example declares them
        probe = ([0, 1, 2.5] + ([v for y in Y for v in (y, y + 1, y - 1)] if lk in ("bigint", "frac") else [])) if eff == "r" else acts      # near a big label the reward still tells y from y+1
        ok = len(got) == n
        for g, x, y in zip(got, X, Y):
            if not ok: break
            ok = ok and g["context"] == x and g["actions"] == acts
            ok = ok and all(abs(Fr(g["rfun"](a)) - Fr(rew(y, a))) < Fr(1, 10**9) for a in probe)
            if ok and eff != "r":      # ... and asked with the very action objects the environment offers
                ok = all(abs(Fr(g["rfun"](oa)) - Fr(rew(y, a))) < Fr(1, 10**9) for oa, a in zip(g["actions"], acts))
        if ok and eff == "m":      # a multi-label action (list, tuple, set, frozenset of labels) earns the Jaccard overlap with the example's labels
            for g, y in zip(got, Y):
                for mk in (list, tuple, set, frozenset):
                    for A in ([y[0]], list(y), acts[:2], list(acts)):
                        want = Fr(len(set(A) & set(y)), len(set(A) | set(y)))
                        try: val = Fr(g["rfun"](mk(A)))
                        except Exception as e: val = None
                        if val is None or abs(val - want) > Fr(1, 10**9):
                            ctx.fail(["xy", "wrong", "m", "set-action"], "labels %r: the action %r earns %r, the Jaccard overlap is %s" % (y, mk(A), val, want), case); ok = None; break
                    if ok is None: break
                if ok is None: break
            if ok is None: continue
        if not ok:
            ctx.fail(["xy", "wrong", eff, lk], "SupervisedSimulation(X,Y,%r) -> %s; expected actions %s and rewards by definition, on %s" % (lt, [(g["context"], g["actions"], g["rewards"]) for g in got][:4], acts, case), case); continue
        ctx.sample(dict(case=case, actions=acts, rewards=[g["rewards"] for g in got][:3]), cap=4)
        # model
        if lk == "cat": pass      # oracle only: the model's action set is the set of labels that occur, a categorical label offers every declared level
        elif eff == "c":
            delist = lambda l: l[0] if isinstance(l, list) else l
            rank = {a: i for i, a in enumerate(acts)}
            reqs.append((14, [0, [rank[delist(y)] for y in Y], []])); metas.append((case, [rank[a] for a in acts], [[Fr(v) for v in g["rewards"]] for g in got]))
        elif eff == "m":
            rank = {a: i for i, a in enumerate(acts)}
            reqs.append((14, [2, [[rank[a] for a in y] for y in Y], []])); metas.append((case, [rank[a] for a in acts], [[Fr(v) for v in g["rewards"]] for g in got]))
        elif lk != "frac" and all(float(y).is_integer() for y in Y):
            reqs.append((14, [1, [int(y) for y in Y], [0, 1, 7]])); metas.append((case, [], [[Fr(g["rfun"](a)) for a in (0, 1, 7)] for g in got]))
    for (case, eacts, erew), mo in zip(metas, ctx.get_model().batch(reqs)):
        macts, mrew = mo
        mrew = [[un_q(v) for v in r] for r in mrew]
        if macts != eacts or any(abs(a - b) > Fr(1, 10**9) for r1, r2 in zip(mrew, erew) for a, b in zip(r1, r2)) or len(mrew) != len(erew):
            ctx.disagree("C14.run", case, str((eacts, erew))[:300], str((macts, mrew))[:300])

# ------------------------------------------------------------------ sources
def check_sources(ctx, n_cases):
    from coba.environments import SupervisedSimulation
    from coba.environments.supervised import CsvSource, ArffSource, LibSvmSource, ManikSource
    from coba.pipes import ListSource
    rng = ctx.rng
    for _ in range(n_cases):
        fmt = rng.choice(["csv", "csv", "arff", "libsvm", "manik"])
        n = rng.randrange(1, 8)
        take = rng.choice([None, None, 1, 3, n, n + 2])
        if fmt in ("csv", "arff"):
            ncol = rng.randrange(2, 5); lab = rng.randrange(ncol)
            names = ["f%d" % i for i in range(ncol)]; names[lab] = "lbl"
            numeric_names = fmt == "csv" and rng.random() < 0.25      # headers that look like numbers (1-based, or counting down): a name is a name
            if numeric_names: names = [str(i + 1) for i in range(ncol)] if rng.random() < 0.5 else [str(ncol - 1 - i) for i in range(ncol)]
            feats = [[rng.randrange(0, 9) for _ in range(ncol)] for _ in range(n)]
            classes = rng.sample(["x", "y", "z", "w"], rng.randrange(2, 4))
            labels = [rng.choice(classes) for _ in range(n)]
            for r, l in zip(feats, labels): r[lab] = l
            by_name = rng.random() < 0.5
            if fmt == "csv":
                header = rng.random() < 0.6
                if not header: by_name = False
                lines = ([",".join(names)] if header else []) + [",".join(map(str, r)) for r in feats]
                if numeric_names and not header: numeric_names = False; names = ["f%d" % i for i in range(ncol)]; names[lab] = "lbl"; lines = [",".join(map(str, r)) for r in feats]
                src = CsvSource(ListSource(lines), has_header=header)
                exp_ctx = [[str(v) for j, v in enumerate(r) if j != lab] for r in feats]
                exp_acts = sorted(set(labels)); cat = False
            else:
                nom = rng.choice([j for j in range(ncol) if j != lab]) if rng.random() < 0.5 else None      # a nominal FEATURE, with missing cells here and there (and missing numeric cells)
                cells = [[("?" if rng.random() < 0.3 else rng.choice(["a", "b"])) if j == nom else ("?" if j != lab and rng.random() < 0.1 else v) for j, v in enumerate(r)] for r in feats]
                lines = ["@relation t"] + ["@attribute %s %s" % (nm, "{" + ",".join(classes) + "}" if j == lab else "{a,b}" if j == nom else "numeric") for j, nm in enumerate(names)] + ["@data"] + [",".join(map(str, r)) for r in cells]
                src = ArffSource(ListSource(lines))
                exp_ctx = [[(None if v == "?" else v if j == nom else float(v)) for j, v in enumerate(r) if j != lab] for r in cells]
                exp_acts = list(classes); cat = True
            case = dict(format=fmt, lines=lines, label_col=names[lab] if by_name else lab, take=take)
            env = make_env(rng, (src, names[lab] if by_name else lab, "c", take), case, via="constructor" if fmt == "arff" and nom is not None else None)      # (Environments would finalise a nominal feature into one-hot columns of the context: C10)
        else:
            multi = fmt == "manik" or rng.random() < 0.3
            labels = [rng.sample(["1", "2", "3"], rng.randrange(1, 3 if multi else 2)) for _ in range(n)]
            rows = [{k: float(rng.randrange(1, 9)) for k in rng.sample(range(5), rng.randrange(1, 4))} for _ in range(n)]
            lines = ["%s %s" % (",".join(l), " ".join("%d:%g" % kv for kv in r.items())) for l, r in zip(labels, rows)]
            if fmt == "manik": lines = ["%d 5 3" % n] + lines
            src = (ManikSource if fmt == "manik" else LibSvmSource)(ListSource(lines))
            lt = "m" if multi else "c"
            exp_ctx = rows; cat = False
            exp_acts = sorted(set(x for l in labels for x in l)) if multi else sorted(set(l[0] for l in labels))
            case = dict(format=fmt, lines=lines, label_type=lt, take=take)
            env = make_env(rng, (src, None, lt, take), case)
        ctx.count("source:" + fmt, repr(case), n >= 2)
        try:
            got = read_env(env); again = read_env(env)
        except Exception as e:
            ctx.fail(["source", "raises", fmt, errname(e)], "%s source raised %s: %s on %s" % (fmt, errname(e), str(e)[:100], case), case); continue
        exp_n = n if take is None else min(take, n)
        ok = len(got) == exp_n and [g["context"] for g in got] == [g["context"] for g in again]
        what = "count/determinism"
        if ok and fmt in ("csv", "arff"):      # a context that carries column names answers by name what it answers by position
            fnames = [nm for j, nm in enumerate(names) if j != lab]
            for g in got:
                if g["named"] is None: continue
                if isinstance(g["named"], str) or [g["named"].get(nm) for nm in fnames if nm in g["named"]] != [v for nm, v in zip(fnames, g["context"]) if nm in g["named"]] or set(g["named"]) != set(fnames):
                    ok = False; what = "context-by-name"; got = [dict(g, context=g["named"]) for g in got]; break
        if ok and take is not None and not cat:
            # with take the environment is the seeded sample: its label set is the sample's (contexts identify the sampled examples)
            pool = list(zip(exp_ctx, labels)); sample_labels = []
            for g in got:
                m = [k for k, (c, l) in enumerate(pool) if c == g["context"] and ((l if isinstance(l, list) else [l]) and set(map(str, g["actions"])) >= set(l if (isinstance(l, list) and case.get("label_type") == "m") else [l[0] if isinstance(l, list) else l]))]
                # equal contexts with different labels: the rewards tell which example was drawn
                acts_s = list(map(str, g["actions"]))
                def consistent(l):
                    ls = [str(x) for x in (l if isinstance(l, list) else [l])]
                    if case.get("label_type") == "m": want = [Fr(len({a} & set(ls)), len({a} | set(ls))) for a in acts_s]
                    else: want = [Fr(1 if a == ls[0] else 0) for a in acts_s]
                    return len(want) == len(g["rewards"]) and all(abs(Fr(x) - w) < Fr(1, 10**9) for x, w in zip(g["rewards"], want))
                m = [k for k in m if consistent(pool[k][1])] or m
                if not m: ok = False; what = "sample-not-from-data"; break
                sample_labels.append(pool.pop(m[0])[1])
            if ok: exp_acts = sorted(set(x for l in sample_labels for x in l)) if case.get("label_type") == "m" else sorted(set((l[0] if isinstance(l, list) else l) for l in sample_labels))
        if ok:
            pool = list(zip(exp_ctx, labels))
            for g in got:
                what = "actions"      # nominal ARFF labels: Categoricals, or their one-hot codes once Environments has finalised them (position = level)
                acts = [(classes[a.index(1)] if isinstance(a, tuple) and sorted(a) == [0] * (len(classes) - 1) + [1] else str(a)) for a in g["actions"]] if cat else g["actions"]
                if acts != exp_acts: ok = False; break
                what = "context/rewards"
                match = [k for k, (c, l) in enumerate(pool) if c == g["context"] and
                         all(abs(Fr(g["rewards"][j]) - (Fr(len({a} & set(l)), len({a} | set(l))) if isinstance(l, list) and case.get("label_type") == "m" else (1 if a == (l[0] if isinstance(l, list) else l) else 0))) < Fr(1, 10**9) for j, a in enumerate(exp_acts))]
                if not match: ok = False; break
                if take is None and match[0] != 0: ok = False; what = "order"; break
                pool.pop(match[0])
        if not ok:
            ctx.fail(["source", "wrong", fmt, what], "%s: %s differs: got %s on %s" % (fmt, what, [(g["context"], g["actions"], g["rewards"]) for g in got][:3], case), case)

def check_prelabelled(ctx, n_cases):
    """a source whose rows already carry a label (and a label type): an explicit label_type argument decides, else the rows' type"""
    from coba.environments import SupervisedSimulation
    from coba.pipes import ListSource, Pipes, LabelRows
    rng = ctx.rng
    for _ in range(n_cases):
        n = rng.randrange(2, 7)
        rows = [[rng.randrange(0, 9), rng.randrange(0, 4), rng.randrange(0, 9)] for _ in range(n)]
        lab = rng.randrange(3); row_t = rng.choice(["c", "r", None]); arg_t = rng.choice(["c", "r", None])
        case = dict(rows=rows, label_col=lab, rows_type=row_t, label_type=arg_t)
        ctx.count("prelabelled", repr(case), True)
        eff = arg_t or row_t or "r"
        try:
            got = read_env(SupervisedSimulation(Pipes.join(ListSource([list(r) for r in rows]), LabelRows(lab, row_t)), None, arg_t))
        except Exception as e:
            ctx.fail(["prelabelled", "raises", errname(e)], "raised %s: %s on %s" % (errname(e), str(e)[:100], case), case); continue
        Y = [r[lab] for r in rows]
        acts, rew = expect(eff, Y)
        ok = len(got) == n and all(g["context"] == [v for j, v in enumerate(r) if j != lab] and g["actions"] == acts and all(abs(Fr(g["rfun"](a)) - Fr(rew(y, a))) < Fr(1, 10**9) for a in ([0, 1, 7] if eff == "r" else acts)) for g, r, y in zip(got, rows, Y))
        if not ok: ctx.fail(["prelabelled", "wrong", "rows=%s arg=%s" % (row_t, arg_t)], "label type %r expected (explicit argument first, then the rows' type): got %s on %s" % (eff, [(g["context"], g["actions"], g["rewards"]) for g in got][:3], case), case)

def check_dict_rows(ctx, n_cases):
    """sparse examples given as dicts with the label under a key; a zero label is not stored (the sparse convention)"""
    from coba.pipes import ListSource
    rng = ctx.rng
    for _ in range(n_cases):
        n = rng.randrange(1, 7)
        feats = [{k: rng.randrange(1, 9) for k in rng.sample("abcd", rng.randrange(0, 4))} for _ in range(n)]
        lt = rng.choice(["c", "r", None])
        labels = [rng.randrange(0, 3) for _ in range(n)]
        store_zero = rng.random() < 0.3
        rows = [dict(f, **({"y": l} if l != 0 or store_zero else {})) for f, l in zip(feats, labels)]
        case = dict(format="dicts", rows=rows, label_col="y", label_type=lt)
        ctx.count("source:dicts", repr(case), n >= 2 and 0 in labels)
        eff = lt or "r"
        try:
            got = read_env(make_env(rng, (ListSource([dict(r) for r in rows]), "y", lt), case))
        except Exception as e:
            ctx.fail(["source", "raises", "dicts", errname(e)], "dict rows raised %s: %s on %s" % (errname(e), str(e)[:100], case), case); continue
        acts, rew = expect(eff, labels)
        ok = len(got) == n and all(g["context"] == f and g["actions"] == acts and all(abs(Fr(g["rfun"](a)) - Fr(rew(y, a))) < Fr(1, 10**9) for a in ([0, 1, 7] if eff == "r" else acts)) for g, f, y in zip(got, feats, labels))
        if not ok: ctx.fail(["source", "wrong", "dicts", eff], "dict rows with label key 'y' (type %r): got %s, the examples are %s / %s on %s" % (lt, [(g["context"], g["actions"], g["rewards"]) for g in got][:3], feats[:3], labels[:3], case), case)

def corpus(ctx):
    from coba.environments import SupervisedSimulation
    for Y in ([["10", "11"], ["11"]], [[1, 2], [2]]):
        c = dict(X=[[1], [2]], Y=Y, label_type="m"); ctx.count("corpus", repr(c))
        try:
            got = read_env(SupervisedSimulation([[1], [2]], Y, "m"))
            exp = [[Fr(len({a} & set(y)), len({a} | set(y))) for a in sorted(set(x for yy in Y for x in yy))] for y in Y]
            if [[Fr(v) for v in g["rewards"]] for g in got] != exp: ctx.fail(["xy", "wrong", "m", "multi"], "multi-label rewards %s expected %s" % ([g["rewards"] for g in got], exp), c)
        except Exception as e: ctx.fail(["xy", "raises", errname(e), "m"], "multi-label raised %s" % errname(e), c)

def run(ctx):
    corpus(ctx)
    check_xy(ctx, ctx.n(800, 10000))
    check_sources(ctx, ctx.n(400, 5000))
    check_prelabelled(ctx, ctx.n(200, 2500))
    check_dict_rows(ctx, ctx.n(200, 2500))

def replay(r):
    print(json.dumps(r, indent=1, default=str)[:3000]); return 0
