"""C19 — ConcurrentCacher: a deterministic scheduler drives the real class (injected lock, shared array, patched time.sleep, instrumented
inner cache); the same schedule is replayed in the extracted model; an invariant monitor states the property on the implementation."""
import threading, itertools, os, gzip, tempfile, shutil
from .common import *

LEVEL_TEXT = ("Coq theorems (C19/Props.v) over an interleaving model of ConcurrentCacher (one lock-table slot, any number of callers, any get_set/rmv operation lists, any schedule, getters that fail): "
              "the counter invariant (arr=-1 iff exactly one writer and no reader, arr=r>=0 iff r readers and no writer, an entry is Writing iff exactly one getter runs) is inductive, hence holds in every reachable state; "
              "corollaries: no partial read, writers exclusive, all locks released when everybody has finished, no deadlock (some caller can always make a non-spinning step), single flight per step, a failed getter leaves no entry; no_caller_waits_for_ever (a potential lowered by every non-spinning step; every round that serves each caller contains one; all finished after at most 8 rounds per pending operation). "
              "A deterministic scheduler drives the real class at the granularity of its lock blocks and getter steps and the schedule is replayed in the extracted model; a monitor inside the instrumented inner cache checks the property itself; getters interrupted by ordinary errors, KeyboardInterrupt or SystemExit at every point; the lock-table slot computed in interpreters with other hash seeds; two real worker processes asking for one key at once.")
TRUSTED = ["Coq 8.16.1 kernel (coqc)", "extraction + ocaml/driver.ml", "harness/c19.py (scheduler built on threading.Condition, injected Lock object, patched coba.context.cachers.time.sleep, instrumented inner cacher)",
           "modelled not verified: one slot of the lock table (keys in different slots do not interact); process-level sharing (RawArray + OS lock) is represented by threads; a caller never nests get_set on colliding keys (excluded by the property); "
           "gzip: 'no strict prefix of a complete stream reads to the end without error' is validated by cutting real cache files"]
ASSUMPTIONS = ["each `with self._lock:` block is atomic (it is: the lock is held)", "between two lock blocks a caller only touches the inner cache under the lock it holds, except rmv's unlocked `key in self` test (read-only)"]
RULE = ("2-4 callers x 1-3 operations (get_set/rmv) over 1-3 keys that all hash to one slot, getters that raise, bodies that raise, random schedules of 10-60 grants (then run to completion); exhaustive schedules of 2 callers x 1-2 ops in the thorough tier; "
        "non-trivial = at least 2 callers touching a common key")

def fingerprints():
    return fingerprint_defs('coba/context/cachers.py', ['ConcurrentCacher', 'MemoryCacher', 'DiskCacher'])

class Sched:
    def __init__(self, n):
        self.cv = threading.Condition(); self.turn = None; self.state = ["new"] * n; self.timeout = 20
    def wait_turn(self, i):
        with self.cv:
            self.state[i] = "waiting"; self.cv.notify_all()
            while self.turn != i:
                if not self.cv.wait(self.timeout): raise TimeoutError("scheduler")
            self.turn = None; self.state[i] = "running"
    def done(self, i):
        with self.cv: self.state[i] = "done"; self.cv.notify_all()
    def grant(self, i):
        with self.cv:
            if self.state[i] == "done": return False
            while self.state[i] != "waiting":
                if not self.cv.wait(self.timeout): raise TimeoutError("caller %d never reached a scheduling point" % i)
            self.turn = i; self.cv.notify_all()
            while self.turn == i or self.state[i] == "running":
                if not self.cv.wait(self.timeout): raise TimeoutError("caller %d did not come back" % i)
        return True

SPIN = threading.local()
class BusyWait(Exception): pass
def counted_sleep(_):
    """time.sleep inside the co-simulation: the real waits sleep between two visits of the shared lock; a caller that sleeps again and again WITHOUT visiting the lock can never see another caller move"""
    SPIN.n = getattr(SPIN, "n", 0) + 1
    if SPIN.n > 20000: raise BusyWait("a caller polls the lock table without taking the shared lock")
class CtlLock:
    def __init__(self, sched): self.sched = sched
    def __enter__(self): SPIN.n = 0; self.sched.wait_turn(int(threading.current_thread().name)); return self
    def __exit__(self, *a): return False

class Inner:
    """instrumented MemoryCacher-like inner cache with a property monitor"""
    def __init__(self, sched, mon): self.d = {}; self.writing = set(); self.sched = sched; self.mon = mon; self.getters = {}
    def __contains__(self, key): return key in self.d
    def rmv(self, key):
        if key in self.writing: self.mon.append("rmv of %r while it is being written" % key)
        self.d.pop(key, None)
    def get_set(self, key, getter):
        from contextlib import nullcontext
        if key in self.writing: self.mon.append("inner get of %r while it is being written" % key)
        if key not in self.d:
            if self.writing: self.mon.append("two writers at once: %r and %r" % (key, self.writing))
            self.writing.add(key)
            try:
                v = getter()
            finally:
                self.writing.discard(key)
            self.d[key] = v
        return nullcontext(self.d[key])

def run_impl(progs, schedule, nkeys, index_of_key):
    """returns (snapshots after each grant, monitor messages, outcomes per caller)"""
    import coba.context.cachers as cc
    n = len(progs)
    sched = Sched(n)
    mon = []
    inner = Inner(sched, mon)
    arr = [0] * 2**16
    cacher = cc.ConcurrentCacher(inner, arr, CtlLock(sched))
    cacher._index = lambda key: index_of_key
    outcomes = [[] for _ in range(n)]
    getter_runs = {}
    def worker(i):
        try:
            sched.wait_turn(i)
            for (kind, key, getter_ok, body_ok) in progs[i]:
                try:
                    if kind == "get":
                        def getter(key=key, ok=getter_ok):
                            getter_runs[key] = getter_runs.get(key, 0) + 1
                            sched.wait_turn(i)                      # the getter takes time: others may be scheduled meanwhile
                            if not ok: raise ValueError("getter failed")
                            return ("value", key)
                        with cacher.get_set(key, getter) as v:
                            if v != ("value", key): mon.append("caller %d received %r for key %r" % (i, v, key))
                            if not body_ok: raise KeyError("body failed")
                        outcomes[i].append("ok")
                    else:
                        cacher.rmv(key); outcomes[i].append("ok")
                except (ValueError, KeyError) as e:
                    outcomes[i].append(type(e).__name__)
        except Exception as e:
            outcomes[i].append("CRASH:" + errname(e) + ":" + str(e)[:60])
        finally:
            sched.done(i)
    old_sleep = cc.time.sleep
    cc.time.sleep = counted_sleep
    threads = [threading.Thread(target=worker, args=(i,), name=str(i), daemon=True) for i in range(n)]
    snaps = []
    try:
        for t in threads: t.start()
        for (i, _) in schedule:
            sched.grant(i)
            snaps.append((arr[index_of_key], [2 if k in inner.d else (1 if k in inner.writing else 0) for k in range(nkeys)], [s == "done" for s in sched.state]))
        # run to completion round-robin (bounded)
        for _ in range(400):
            if all(s == "done" for s in sched.state): break
            for i in range(n): sched.grant(i)
        finished = all(s == "done" for s in sched.state)
    finally:
        cc.time.sleep = old_sleep
    return snaps, mon, outcomes, finished, arr[index_of_key], sum(1 for x in arr if x != 0), dict(cacher._locks), getter_runs, inner

def wire(progs, schedule, nkeys):
    wp = [[[0 if kind == "get" else 1, key] for (kind, key, g, b) in p] for p in progs]
    return [nkeys, wp, [[i, b] for i, b in schedule]]

def gen_case(rng):
    n = rng.choice([2, 2, 3, 4]); nkeys = rng.choice([1, 1, 2, 3])
    progs = []
    for _ in range(n):
        p = []
        for _ in range(rng.choice([1, 2, 3])):
            kind = "get" if rng.random() < 0.75 else "rmv"
            p.append((kind, rng.randrange(nkeys), rng.random() < 0.8, rng.random() < 0.85))
        progs.append(p)
    return progs, nkeys, [rng.randrange(n) for _ in range(rng.randrange(10, 61))]

def getter_flags(progs, grants):
    """the model's b for a grant = does the getter of the caller's current get operation succeed (it is only consumed at the getter step)"""
    return [(i, True) for i in grants]

def check_case(ctx, progs, nkeys, grants, kind, reqs):
    case = dict(programs=[[list(o) for o in p] for p in progs], keys=nkeys, schedule=grants)
    shared = len(set(k for p in progs for (_, k, _, _) in p)) < sum(len(p) for p in progs)
    ctx.count(kind, repr(case), len(progs) >= 2 and shared)
    # the model needs, per grant, whether the current getter succeeds: derive from the caller's program position during replay in the harness
    try:
        snaps, mon, outcomes, finished, final, nonzero, locks, getter_runs, inner = run_impl(progs, [(i, True) for i in grants], nkeys, 7)
    except TimeoutError as e:
        ctx.fail(["hang"], "scheduler time-out (%s): a caller waits forever on %s" % (e, case), case); return
    if mon: ctx.fail(["monitor", mon[0].split(" ")[0]], "; ".join(mon[:3]) + " on %s" % case, case); return
    if not finished: ctx.fail(["no-progress"], "callers did not finish within the grant budget (possible deadlock/livelock) on %s" % case, case); return
    if final != 0 or nonzero: ctx.fail(["lock-leak"], "after all callers finished the counter is %r (%d non-zero slots) on %s" % (final, nonzero, case), case); return
    if any(v != 0 for v in locks.values()): ctx.fail(["lock-leak", "per-thread"], "per-thread lock table not empty: %r" % locks, case); return
    crashed = [o for outs in outcomes for o in outs if o.startswith("CRASH")]
    if crashed: ctx.fail(["caller-crash"], "a caller ended with %s on %s" % (crashed[0], case), case); return
    for i, p in enumerate(progs):
        exp = ["ok" if kind2 == "rmv" else None for (kind2, k, g, b) in p]
        if len(outcomes[i]) != len(p): ctx.fail(["outcomes"], "caller %d recorded %r for %d operations" % (i, outcomes[i], len(p)), case); return
    ctx.sample(dict(case=case, outcomes=outcomes, getter_runs=getter_runs), cap=4)
    reqs.append((case, snaps, progs, grants, nkeys))

def model_compare(ctx, reqs):
    """replay in the model: the b flag of a grant is the getter outcome of the caller's current operation"""
    wreqs = []
    for case, snaps, progs, grants, nkeys in reqs:
        # position of each caller's current op is tracked by the model itself; b is only used at a G4 step, so we can pass,
        # for caller i, the outcome of the first not-yet-finished get op: computed by simulating op completion from the impl snapshots is fragile ->
        # instead we pass per grant the outcome of the op the implementation was executing (recorded below)
        wreqs.append((19, wire(progs, [(i, b) for i, b in zip(grants, case["_bflags"])], nkeys)))
    mouts = ctx.get_model().batch(wreqs)
    for (case, snaps, progs, grants, nkeys), mo in zip(reqs, mouts):
        for step, (sn, m) in enumerate(zip(snaps, mo)):
            marr, ment, mpcs, mtodo = m
            mdone = [p == 0 and t == 0 for p, t in zip(mpcs, mtodo)]
            if sn[0] != marr or sn[1] != ment or sn[2] != mdone:
                ctx.disagree("C19.run", dict({k: v for k, v in case.items() if k != "_bflags"}, step=step), dict(arr=sn[0], entries=sn[1], done=sn[2]), dict(arr=marr, entries=ment, done=mdone, pcs=mpcs)); break

def bflags(progs, grants, nkeys):
    """which getter outcome applies at each grant: simulate op indices with a tiny python copy of the macro semantics is avoided: we ask the model twice.
    First run with all-true flags gives, per grant, the caller's remaining-op count before the grant; the op being executed is then known."""
    return None

def disk_prefix_law(ctx):
    """a cache file cut at any byte is never served as a complete entry"""
    import coba.context.cachers as cc
    d = tempfile.mkdtemp(prefix="c19-", dir=os.path.join(VERIF, ".work"))
    try:
        dc = cc.DiskCacher(d)
        lines = ["line %d: %s" % (i, "x" * (i % 7)) for i in range(40)]
        with dc.get_set("k", lambda: iter(lines)) as f: full = [l.rstrip("\n") for l in f]
        if full != lines: ctx.fail(["disk", "roundtrip"], "DiskCacher returned %d lines for %d" % (len(full), len(lines)), dict(what="disk roundtrip")); return
        raw = open(os.path.join(d, "k.gz"), "rb").read()
        step = 1 if ctx.tier == "thorough" else 7
        for cut in range(0, len(raw), step):
            ctx.count("disk-cut", cut, True)
            open(os.path.join(d, "k.gz"), "wb").write(raw[:cut])
            try:
                with dc.get_set("k", lambda: (_ for _ in ()).throw(RuntimeError("must not be called for a present entry"))) as f:
                    got = [l.rstrip("\n") for l in f]
                if got != lines and cut != 0: ctx.fail(["disk", "torn-file-served"], "a cache file cut at byte %d of %d was served as %d lines without error" % (cut, len(raw), len(got)), dict(cut=cut)); return
            except RuntimeError:
                pass          # zero-length file: treated as absent, the getter runs (and here refuses)
            except (EOFError, OSError, gzip.BadGzipFile, Exception) as e:
                pass          # rejected with an error, never served
        # a getter that fails part-way - with an ordinary error, an interrupt or an exit request, at any point of its stream - leaves no entry that is later served as complete
        few = lines[:6]
        for exc in (ValueError, KeyboardInterrupt, SystemExit):
            for cut in range(0, len(few) + 1):
                ctx.count("disk-getter-fails:" + exc.__name__, cut, True)
                def bad(cut=cut, exc=exc):
                    for i, l in enumerate(few):
                        if i == cut: raise exc("boom")
                        yield l
                    if cut == len(few): raise exc("boom")
                case = dict(what="failed write", exception=exc.__name__, after_items=cut)
                try:
                    dc.get_set("z", bad)
                    ctx.fail(["disk", "failed-getter-served"], "a getter that raised %s after %d items did not surface the error" % (exc.__name__, cut), case); continue
                except exc: pass
                except BaseException as e:
                    ctx.fail(["disk", "failed-getter-other-error", errname(e)], "a getter that raised %s surfaced as %s" % (exc.__name__, errname(e)), case); continue
                calls = []
                def good(): calls.append(1); return iter(few)
                try:
                    with dc.get_set("z", good) as f: got = [l.rstrip("\n") for l in f]
                except BaseException as e:
                    ctx.fail(["disk", "after-failure", errname(e)], "get_set after a getter failed with %s raised %s" % (exc.__name__, errname(e)), case); continue
                if got != few:
                    ctx.fail(["disk", "partial-entry-served", exc.__name__], "after a getter failed with %s after %d items the entry is served as %d of %d lines (getter re-run: %s)" % (exc.__name__, cut, len(got), len(few), bool(calls)), case)
                dc.rmv("z")
        # the WRITE fails (the file system refuses more than N bytes: a full disk or a quota) - for small entries that surfaces only when the file is flushed and closed
        import resource
        soft, hard = resource.getrlimit(resource.RLIMIT_FSIZE)
        for name, entry in (("small", ["row %d %s" % (i, "y" * (i % 5)) for i in range(40)]), ("large", ["row %d %s" % (i, os.urandom(30).hex()) for i in range(2500)])):
            with dc.get_set("w", lambda: iter(entry)) as f: size = os.path.getsize(os.path.join(d, "w.gz"))
            dc.rmv("w")
            limits = sorted({0, 1, 9, 10, 11, size // 3, size // 2, size - 9, size - 8, size - 1} if ctx.tier != "thorough" else set(range(0, size, max(1, size // 150))) | {size - 1})
            for lim in [l for l in limits if 0 <= l < size]:
                case = dict(what="the file system refuses to write more than N bytes", entry=name, bytes_of_the_entry=size, N=lim); ctx.count("disk-write-fault:" + name, lim, True)
                raised = None
                try:
                    resource.setrlimit(resource.RLIMIT_FSIZE, (lim, hard))
                    try: dc.get_set("w", lambda: iter(entry))
                    finally: resource.setrlimit(resource.RLIMIT_FSIZE, (soft, hard))
                except BaseException as e: raised = e
                if raised is None: ctx.fail(["disk", "write-fault-unreported"], "writing a %d byte entry with room for %d bytes raised nothing" % (size, lim), case); dc.rmv("w"); continue
                calls = []
                def good(): calls.append(1); return iter(entry)
                try:
                    with dc.get_set("w", good) as f: got = [l.rstrip("\n") for l in f]
                except BaseException as e:
                    ctx.fail(["disk", "partial-entry-served", "write-fault", errname(e)], "after a write fault (%s) at %d of %d bytes the next get_set raised %s instead of computing the entry (getter re-run: %s)" % (errname(raised), lim, size, errname(e), bool(calls)), case); dc.rmv("w"); break
                if got != entry:
                    ctx.fail(["disk", "partial-entry-served", "write-fault"], "after a write fault (%s) at %d of %d bytes the entry is served as %d of %d lines (getter re-run: %s)" % (errname(raised), lim, size, len(got), len(entry), bool(calls)), case); dc.rmv("w"); break
                dc.rmv("w")
    finally:
        try: resource.setrlimit(resource.RLIMIT_FSIZE, (soft, hard))
        except Exception: pass
        shutil.rmtree(d, ignore_errors=True)

def memory_partial_law(ctx):
    """a getter whose stream fails part-way leaves no entry in a MemoryCacher (alone or under a ConcurrentCacher); the next caller computes the full value"""
    import coba.context.cachers as cc
    full = ["l%d" % i for i in range(5)]
    for wrap in (False, True):
        for cut in range(0, len(full) + 1):
          for exc in (ValueError, KeyboardInterrupt):
            for kind in ("generator", "iterator"):
                inner = cc.MemoryCacher()
                cache = cc.ConcurrentCacher(inner, [0] * 2**16, threading.Lock()) if wrap else inner
                ctx.count("memory-partial:%s" % ("concurrent" if wrap else "plain"), (wrap, cut, kind), True)
                def bad(cut=cut, kind=kind, exc=exc):
                    def g():
                        for i, l in enumerate(full):
                            if i == cut: raise exc("boom")
                            yield l
                        if cut == len(full): raise exc("boom")
                    return g() if kind == "generator" else iter(list(g()) if False else g())
                case = dict(what="memory partial", wrapped=wrap, cut=cut, kind=kind, exception=exc.__name__)
                try:
                    with cache.get_set("k", bad) as v: got = list(v)
                    ctx.fail(["memory", "failed-getter-served"], "a getter whose stream failed after %d items was served as %r" % (cut, got), case); continue
                except exc: pass
                except BaseException as e:
                    ctx.fail(["memory", "failed-getter-other-error", errname(e)], "a failing getter surfaced as %s" % errname(e), case); continue
                if "k" in cache:
                    ctx.fail(["memory", "partial-entry-left"], "a getter whose stream failed after %d items left an entry behind" % cut, case); continue
                calls = []
                def good():
                    calls.append(1); return iter(full)
                if wrap and any(cache._array): ctx.fail(["memory", "lock-left"], "a getter that raised %s left a lock held" % exc.__name__, case); continue
                try:
                    with cache.get_set("k", good) as v: got = list(v)
                except Exception as e:
                    ctx.fail(["memory", "after-failure", errname(e)], "get_set after a failed getter raised %s" % errname(e), case); continue
                if got != full or calls != [1]:
                    ctx.fail(["memory", "after-failure-wrong"], "after a failed getter (cut %d) the next caller got %r (getter calls: %d)" % (cut, got, len(calls)), case)

def slot_law(ctx):
    """the lock-table slot is a function of the key alone: every interpreter (whatever its string-hash seed) maps a key to the same slot - the premise of mutual exclusion between processes that share the table"""
    import coba.context.cachers as cc
    keys = ["a", "b", 1, 2.5, ("x", 1), "openml_042693_data", "k" * 40]
    script = "import sys; sys.path.insert(0, %r)\nimport coba.context.cachers as cc\nc = cc.ConcurrentCacher(cc.MemoryCacher(), [0]*2**16, None)\nprint([c._index(k) for k in %r])" % (REPO, keys)
    here = [cc.ConcurrentCacher(cc.MemoryCacher(), [0] * 2**16, threading.Lock())._index(k) for k in keys]
    for seed in ("1", "2", "random"):
        ctx.count("slot", seed, True)
        p = subprocess.run([sys.executable, "-W", "ignore", "-c", script], capture_output=True, text=True, env=dict(os.environ, PYTHONHASHSEED=seed), timeout=120)
        if p.returncode != 0: ctx.fail(["slot", "raises"], "computing the slots in a child interpreter failed: %s" % p.stderr[-200:], dict(what="slot", seed=seed)); continue
        there = json.loads(p.stdout.strip().splitlines()[-1])
        if there != here:
            ctx.fail(["slot", "not-a-function-of-the-key"], "an interpreter with PYTHONHASHSEED=%s maps the keys %r to slots %r, this one to %r: two processes sharing the lock table would not exclude each other" % (seed, keys, there, here), dict(what="slot", seed=seed, keys=[repr(k) for k in keys]))

PROC_SCRIPT = r"""
import sys, os, time, json
sys.path.insert(0, %(repo)r); sys.path.insert(0, %(verif)r)
import warnings; warnings.simplefilter("ignore")
from harness.c19 import CacheUser
if __name__ == "__main__":
    from coba.context import CobaContext, DiskCacher, NullLogger
    from coba.multiprocessing import CobaMultiprocessor
    work = sys.argv[1]
    CobaContext.logger = NullLogger(); CobaContext.cacher = DiskCacher(os.path.join(work, "cache"))
    out = list(CobaMultiprocessor(CacheUser(work), 2, 0).filter([0, 1]))
    print(json.dumps(out))
"""
class CacheUser:
    """run in worker processes: both items ask the shared cacher for the same key at about the same time; the getter is slow and leaves a mark each time it runs"""
    def __init__(self, work): self.work = work
    def filter(self, item):
        import time
        from coba.context import CobaContext
        work = self.work
        open(os.path.join(work, "ready%d" % item), "w").close()
        t0 = time.time()
        while not (os.path.exists(os.path.join(work, "ready0")) and os.path.exists(os.path.join(work, "ready1"))) and time.time() - t0 < 20: time.sleep(0.01)
        def getter():
            with open(os.path.join(work, "getter_runs"), "a") as f: f.write("x")
            for i in range(6):
                time.sleep(0.15); yield "line %d" % i
        try:
            with CobaContext.cacher.get_set("k", getter) as v: got = [l.rstrip("\n") if isinstance(l, str) else l.decode().rstrip("\n") for l in v]
            yield [item, "ok", got]
        except BaseException as e:
            yield [item, "raised", type(e).__name__]

def process_law(ctx):
    """two worker processes started by CobaMultiprocessor ask the cacher they were given for one key at the same moment: the getter runs once and both receive the complete value"""
    work = tempfile.mkdtemp(prefix="c19p-", dir=os.path.join(VERIF, ".work"))
    try:
        for rep in range(ctx.n(1, 3)):
            sub = os.path.join(work, "r%d" % rep); os.makedirs(sub)
            sf = os.path.join(sub, "run.py"); open(sf, "w").write(PROC_SCRIPT % dict(repo=REPO, verif=VERIF))
            case = dict(what="two worker processes, one key", repetition=rep)
            ctx.count("process", repr(case), True)
            try: p = subprocess.run([sys.executable, "-W", "ignore", sf, sub], capture_output=True, text=True, timeout=120, env=dict(os.environ, PYTHONHASHSEED="random"))
            except subprocess.TimeoutExpired: ctx.fail(["process", "hang"], "two workers asking for one key did not finish within 120 s", case); continue
            if p.returncode != 0: ctx.fail(["process", "raises"], "the run failed: %s" % p.stderr[-300:], case); continue
            out = sorted(json.loads(p.stdout.strip().splitlines()[-1]))
            runs = len(open(os.path.join(sub, "getter_runs")).read()) if os.path.exists(os.path.join(sub, "getter_runs")) else 0
            full = ["line %d" % i for i in range(6)]
            if runs != 1 or out != [[0, "ok", full], [1, "ok", full]]:
                ctx.fail(["process", "not-exclusive"], "the getter ran %d time(s) and the two workers received %r; one run and the complete value twice are expected" % (runs, out), case)
    finally:
        shutil.rmtree(work, ignore_errors=True)

def reentrant_law(ctx):
    """one caller may read a key again inside its own with-block (the per-thread lock count): afterwards nothing is held and the key is still usable"""
    import coba.context.cachers as cc
    for depth in (1, 2, 3, 4):
        for fail_body in (False, True):
            arr = [0] * 2**16
            cache = cc.ConcurrentCacher(cc.MemoryCacher(), arr, threading.Lock())
            calls = []
            def getter(): calls.append(1); return iter(["a", "b"])
            case = dict(what="re-entrant reads", depth=depth, body_raises=fail_body)
            ctx.count("reentrant", repr(case), True)
            def nest(d):
                with cache.get_set("k", getter) as v:
                    got = list(v)
                    if got != ["a", "b"]: raise AssertionError("value %r at depth %d" % (got, d))
                    if d > 1: nest(d - 1)
                    elif fail_body: raise KeyError("body")
            try:
                try: nest(depth)
                except KeyError: pass
                if any(arr): ctx.fail(["reentrant", "lock-left"], "after %d nested reads of one key by one caller%s the lock table is not clear (%s)" % (depth, " (innermost body raised)" if fail_body else "", sorted(set(x for x in arr if x))), case); continue
                with cache.get_set("k", getter) as v: got = list(v)
                cache.rmv("k")
                with cache.get_set("k", getter) as v: got2 = list(v)
                if got != ["a", "b"] or got2 != ["a", "b"] or len(calls) != 2 or any(arr):
                    ctx.fail(["reentrant", "wrong-after"], "after nested reads: values %r / %r, getter ran %d times (expected 2: once, and once after rmv), table clear: %s" % (got, got2, len(calls), not any(arr)), case)
            except Exception as e:
                ctx.fail(["reentrant", "raises", errname(e)], "nested reads of one key (depth %d) then get/rmv/get raised %s: %s" % (depth, errname(e), str(e)[:80]), case)

def run(ctx):
    os.makedirs(os.path.join(VERIF, ".work"), exist_ok=True)
    rng = ctx.rng
    reqs = []
    cases = []
    # corpus: collision of two keys in one slot, failing getter, rmv racing a get
    cases.append(([[("get", 0, True, True)], [("get", 1, True, True), ("rmv", 1, True, True)]], 2, [0, 0, 1, 0, 0, 0, 0, 1, 1, 1, 1, 1]))
    cases.append(([[("get", 0, False, True), ("get", 0, True, True)], [("get", 0, True, False)]], 1, [0, 1, 0, 1, 0, 0, 1, 1, 0, 0, 1, 1, 0, 0]))
    for _ in range(ctx.n(150, 2500)): cases.append(gen_case(rng))
    if ctx.tier == "thorough" or ctx.escalated:
        for sched in itertools.product([0, 1], repeat=9):
            cases.append(([[("get", 0, True, True), ("rmv", 0, True, True)], [("get", 0, True, True)]], 1, list(sched)))
            cases.append(([[("get", 0, False, True)], [("get", 0, True, True)]], 1, list(sched)))
    for progs, nkeys, grants in cases:
        if len(ctx.failures) >= 25: break      # enough counterexamples
        check_case(ctx, progs, nkeys, grants, "schedule", reqs)
    # model replay: the getter outcome used at a grant is the outcome of that caller's first unfinished get operation; determine it with a first model pass
    first = ctx.get_model().batch([(19, wire(p, [(i, True) for i in g], nk)) for (_, _, p, g, nk) in reqs])
    for (case, snaps, progs, grants, nkeys), mo in zip(reqs, first):
        flags = []
        todo_before = [len(p) for p in progs]; pcs_before = [0] * len(progs)
        for (i, m) in zip(grants, mo):
            opi = len(progs[i]) - todo_before[i] - (1 if pcs_before[i] != 0 else 0)
            opi = max(0, min(opi, len(progs[i]) - 1))
            flags.append(bool(progs[i][opi][2]))
            pcs_before = m[2]; todo_before = m[3]
        case["_bflags"] = flags
    # flags computed from an all-success pass are exact up to the first failing getter; iterate once more for later ones
    for _ in range(3):
        second = ctx.get_model().batch([(19, wire(p, list(zip(g, c["_bflags"])), nk)) for (c, _, p, g, nk) in reqs])
        for (case, snaps, progs, grants, nkeys), mo in zip(reqs, second):
            flags = []
            todo_before = [len(p) for p in progs]; pcs_before = [0] * len(progs)
            for (i, m) in zip(grants, mo):
                opi = len(progs[i]) - todo_before[i] - (1 if pcs_before[i] != 0 else 0)
                opi = max(0, min(opi, len(progs[i]) - 1))
                flags.append(bool(progs[i][opi][2]))
                pcs_before = m[2]; todo_before = m[3]
            case["_bflags"] = flags
    model_compare(ctx, reqs)
    disk_prefix_law(ctx)
    memory_partial_law(ctx)
    slot_law(ctx)
    process_law(ctx)
    reentrant_law(ctx)

def replay(r):
    print(json.dumps(r, indent=1, default=str)[:3000]); return 0
