"""C09 — ordering/selection filters: position recovery on generated interaction lists; model correspondence + oracle."""
import math
from itertools import islice
from .common import *
from . import c05

LEVEL_TEXT = ("Coq theorems (C09/Props.v) over the position model: Shuffle/Riffle are permutations; Sort is a stable ordering (permutation, sorted, equal keys keep order); "
              "Slice positions; Reservoir returns min(n,N) distinct positions for ANY skip lengths; Where's peek of max+1 interactions decides the range exactly (over the generated "
              "_in_min_max / peek flag); Batch then Unbatch is the identity. Tied to the code by the translator and by position-recovery correspondence on generated interaction lists.")
TRUSTED = ["Coq 8.16.1 kernel (coqc)", "translator harness/translate/c09.py (textual recognition of Where.filter statements, fail closed)", "extraction + ocaml/driver.ml", "harness/c09.py",
           "modelled not verified: libm log/pow for Reservoir's skip lengths (supplied to the model by the harness from the same formulas), CPython sorted() stability, islice, deep equality of interactions"]
ASSUMPTIONS = ["interactions carry a unique 'id' field so that output positions can be recovered; filters must not alter any field (checked by equality with the input interaction)"]
RULE = ("interaction lists of length 0-40 (simulated/logged; dense, sparse, scalar, None contexts), every filter with parameters at 0/None/N-1/N/N+1, two-sided ranges with either side open, "
        "steps 1-4, 1-3 sort keys with ties, batch sizes around N, boundary seeds; non-trivial = N>=2; distinct by (filter, params, N, kind)")

def fingerprints():
    fp = fingerprint_defs('coba/environments/filters.py', ['Shuffle', 'Sort', 'Where', 'Riffle', 'Batch', 'Unbatch', 'Cache', 'Chunk', 'Params', 'Identity'])
    fp.update(fingerprint_defs('coba/pipes/filters.py', ['Shuffle', 'Take', 'Slice', 'Reservoir', 'Cache', 'Identity']))
    return fp

def make_interactions(rng, N, kind, ctx_kind, nkeys=3):
    out = []
    for i in range(N):
        if ctx_kind == "dense": c = [rng.randrange(0, 3) for _ in range(nkeys)]
        elif ctx_kind == "sparse": c = {k: rng.randrange(0, 3) for k in rng.sample(["a", "b", "c"], rng.randrange(0, 4))}
        elif ctx_kind == "scalar": c = rng.randrange(0, 3)
        else: c = None
        na = rng.choice([2, 2, 3, 4])
        it = {"context": c, "actions": list(range(na)), "rewards": [rng.randrange(0, 2) for _ in range(na)], "id": i}
        if kind == "logged":
            it["action"] = rng.randrange(na); it["reward"] = rng.randrange(0, 2); it["probability"] = 0.5
        out.append(it)
    return out

def opt(v): return [] if v is None else [v]

def reservoir_skips(seed, n, N):
    """skip lengths floor(log(r2, 1-W)) as the algorithm computes them (libm part only), None for degenerate triples"""
    import coba.random as cr
    rng = cr.CobaRandom(seed)
    rng.shuffle(list(range(n)))
    W, x, skips, consumed = 1, 1 / n, [], n
    while consumed < N + 5 and len(skips) < 400:
        r = rng.randoms(60)
        for i in range(0, 60, 3):
            r1, r2, r3 = r[i:i + 3]
            if consumed >= N + 5: break      # the real loop has ended by now (StopIteration): later draws are never used
            if r1 == 0 or r2 == 0: skips.append(None); continue
            W = W * r1 ** x
            S = math.floor(math.log(r2, 1 - W))
            skips.append(min(S, N + 1)); consumed += S + 1      # a skip beyond the end ends the loop; capped for the wire format
    return skips

def gen_case(rng):
    import coba.environments.filters as F
    N = rng.choice([0, 1, 2, 3, 5, 8, 13, 21, 40])
    kind = rng.choice(["simulated", "simulated", "logged"])
    ck = rng.choice(["dense", "dense", "sparse", "scalar", "none"])
    inter = make_interactions(rng, N, kind, ck)
    seed = rng.choice([1, 2, rng.randrange(100), c05.seed_for(rng.choice([0, 1, 2**30 - 1]), rng.randrange(0, 6)), rng.randrange(2**30)])
    f = rng.choice(["shuffle", "take", "slice", "reservoir", "reservoir", "sort", "riffle", "where", "where", "batch", "identity"])
    near = lambda: rng.choice([0, 1, max(N - 1, 0), N, N + 1, rng.randrange(0, N + 2)])
    if f == "shuffle":
        flt = F.Shuffle(seed); eff = seed
        if kind == "logged" and N > 0: eff = seed * 3.21
        req = [1, N, c05.enc_seed(eff)]
        p = dict(seed=seed)
    elif f == "take":
        n = rng.choice([None, near()]); strict = rng.random() < 0.5
        flt = F.Take(n, strict); req = [2, opt(n), strict, N]; p = dict(n=n, strict=strict)
    elif f == "slice":
        st, sp, step = rng.choice([None, near()]), rng.choice([None, near()]), rng.choice([1, 1, 2, 3, 4])
        flt = F.Slice(st, sp, step); req = [3, opt(st), opt(sp), step, N]; p = dict(start=st, stop=sp, step=step)
    elif f == "reservoir":
        n = rng.choice([None, 0, 1, 2, 3, near()]); strict = rng.random() < 0.4
        flt = F.Reservoir(n, strict=strict, seed=seed)
        skips = reservoir_skips(seed, n, N) if n else []
        req = [4, opt(n), strict, N, c05.enc_seed(seed), [opt(s) for s in skips]]; p = dict(n=n, strict=strict, seed=seed)
    elif f == "sort":
        if ck == "dense": keys = rng.sample([0, 1, 2], rng.randrange(0, 4))
        elif ck == "sparse": keys = rng.sample(["a", "b", "c"], rng.randrange(1, 4))
        else: keys = []
        flt = F.Sort(*keys)
        if ck in ("scalar", "none"): return None     # tuple(context) is not defined for these by the filter
        if ck == "dense": kl = [[it["context"][k] for k in keys] if keys else list(it["context"]) for it in inter]
        else: kl = [[it["context"].get(k, 0) for k in keys] for it in inter]
        req = [5, kl]; p = dict(keys=keys)
    elif f == "riffle":
        sp = rng.choice([1, 2, 3, 5]); flt = F.Riffle(sp, seed); req = [6, sp, N, c05.enc_seed(seed)]; p = dict(spacing=sp, seed=seed)
    elif f == "where":
        def rg(kind_):
            k = rng.random()
            hi = {"int": N + 2, "act": 5, "fet": 4}[kind_]
            if k < 0.3: return None
            if k < 0.5: return rng.randrange(0, hi)
            a, b = sorted([rng.randrange(0, hi), rng.randrange(0, hi)])
            return rng.choice([(a, b), (a, None), (None, b)])
        ni, na, nf = rg("int"), rg("act"), rg("fet")
        flt = F.Where(n_interactions=ni, n_actions=na, n_features=nf)
        def enc(r):
            if r is None: return [[], []]
            if isinstance(r, int): return [[r], [r]]
            return [opt(r[0]), opt(r[1])]
        c0 = inter[0]["context"] if inter else None
        flen = 0 if c0 is None else (len(c0) if isinstance(c0, (list, dict)) else 1)
        req = [7, enc(ni), enc(nf), enc(na), flen, [len(it["actions"]) for it in inter]]; p = dict(n_interactions=ni, n_actions=na, n_features=nf)
    elif f == "batch":
        k = rng.choice([None, 0, 1, 2, 3, max(N - 1, 1), N, N + 1])
        flt = ("batch", k); req = [8, k or 0, N]; p = dict(batch_size=k)
    else:
        which = rng.choice(["Cache", "Chunk", "Params", "Identity"])
        flt = {"Cache": lambda: F.Cache(rng.choice([1, 3, 25])), "Chunk": F.Chunk, "Params": lambda: F.Params({"a": 1}), "Identity": F.Identity}[which]()
        req = [8, 0, N]; p = dict(filter=which)
        if which == "Cache":
            k = rng.choice([None, 0, 1, 2, max(N - 1, 0), N]); flt._verif_partial = k; p["partial_read_first"] = k
    return dict(filter=f, params=p, N=N, kind=kind, ctx=ck, seed=seed), inter, flt, req

def apply(flt, inter):
    import coba.environments.filters as F
    if isinstance(flt, tuple):
        return list(F.Unbatch().filter(F.Batch(flt[1]).filter(iter(inter))))
    if type(flt).__name__ == "Cache":
        # a cache is read many times: a read abandoned after k items, then complete reads (each must be the identity)
        k = getattr(flt, "_verif_partial", None)
        if k is not None:
            it = iter(flt.filter(iter(inter))); list(islice(it, k)); del it
        first = list(flt.filter(iter(inter)))
        second = list(flt.filter(iter(inter)))
        return first if [o["id"] for o in first] == [o["id"] for o in second] else first + second
    return list(flt.filter(iter(inter)))

def expected_where(p, inter):
    def inr(v, r):
        if r is None: return True
        lo, hi = (r, r) if isinstance(r, int) else r
        return (lo is None or lo <= v) and (hi is None or v <= hi)
    N = len(inter)
    if N == 0: return []
    c0 = inter[0]["context"]
    flen = 0 if c0 is None else (len(c0) if isinstance(c0, (list, dict)) else 1)
    if not inr(N, p["n_interactions"]) or not inr(flen, p["n_features"]): return []
    return [i for i, it in enumerate(inter) if inr(len(it["actions"]), p["n_actions"])]

def oracle(ctx, case, inter, out, pos):
    f, p, N = case["filter"], case["params"], case["N"]
    fail = lambda sig, what: ctx.fail([f] + sig, what + " (params %s, N=%d, %s/%s)" % (p, N, case["kind"], case["ctx"]), case)
    for o, q in zip(out, pos):
        if not (0 <= q < N) or o != inter[q]: return fail(["content-altered"], "output interaction differs from input interaction %r" % (q,))
    if f in ("shuffle", "riffle", "sort"):
        if sorted(pos) != list(range(N)): return fail(["not-permutation"], "positions %s" % pos)
    if f == "sort":
        ks = [case["_keys"][q] for q in pos]
        if any(ks[i] > ks[i + 1] or (ks[i] == ks[i + 1] and pos[i] > pos[i + 1]) for i in range(len(ks) - 1)): return fail(["not-stable-sorted"], "positions %s keys %s" % (pos, ks))
    if f == "take":
        n, strict = p["n"], p["strict"]
        exp = list(range(N)) if n is None else ([] if (strict and N < n) else list(range(min(n, N))))
        if pos != exp: return fail(["wrong-prefix"], "positions %s expected %s" % (pos, exp))
    if f == "slice":
        exp = list(range(N))[p["start"]:p["stop"]:p["step"]]
        if pos != exp: return fail(["wrong-slice"], "positions %s expected %s" % (pos, exp))
    if f == "reservoir":
        n, strict = p["n"], p["strict"]
        cnt = N if n is None else (0 if (strict and N < n) else min(n, N))
        if len(set(pos)) != len(pos) or len(pos) != cnt: return fail(["wrong-sample"], "positions %s, expected %d distinct" % (pos, cnt))
    if f == "where":
        exp = expected_where(p, inter)
        if pos != exp:
            two = isinstance(p["n_interactions"], tuple) and None not in p["n_interactions"]
            return fail(["wrong-selection", "two-sided" if two else "other"], "positions %s expected %s" % (pos, exp))
    if f in ("batch", "identity"):
        if pos != list(range(N)): return fail(["not-identity"], "positions %s" % pos)

def check(ctx, cases, kind):
    model = ctx.get_model()
    mouts = model.batch([(9, c[3]) for c in cases])
    for (case, inter, flt, req), mo in zip(cases, mouts):
        if case["filter"] == "sort": case["_keys"] = req[1]
        ctx.count(kind + ":" + case["filter"], repr((case["filter"], case["params"], case["N"], case["kind"], case["ctx"])), case["N"] >= 2)
        nf = len(ctx.failures) + len(ctx.known_hit)
        try:
            out = apply(flt, inter)
            if case["filter"] in ("shuffle", "riffle", "reservoir"):
                again = apply(flt, inter)
                if [o["id"] for o in again] != [o["id"] for o in out]:
                    ctx.fail([case["filter"], "not-deterministic"], "same filter object, same input, different output on the second read", case)
            pos = [o["id"] for o in out]
        except Exception as e:
            ctx.fail([case["filter"], "raises", errname(e)], "%s raised %s: %s (params %s N=%d)" % (case["filter"], errname(e), str(e)[:80], case["params"], case["N"]), {k: v for k, v in case.items() if k != "_keys"})
            continue
        oracle(ctx, {k: v for k, v in case.items()}, inter, out, pos)
        ctx.sample(dict(case={k: v for k, v in case.items() if k != "_keys"}, positions=pos), cap=8)
        if (len(ctx.failures) + len(ctx.known_hit)) == nf and mo != pos:
            ctx.disagree("C09.run:" + case["filter"], {k: v for k, v in case.items() if k != "_keys"}, pos, mo)

def corpus(rng):
    """fixed findings: two-sided Where, Reservoir at u=0, Take(None, strict)"""
    import coba.environments.filters as F
    cs = []
    inter = make_interactions(rng, 10, "simulated", "dense")
    cs.append((dict(filter="where", params=dict(n_interactions=(2, 5), n_actions=None, n_features=None), N=10, kind="simulated", ctx="dense", seed=0), inter,
               F.Where(n_interactions=(2, 5)), [7, [[2], [5]], [[], []], [[], []], 3, [len(i["actions"]) for i in inter]]))
    cs.append((dict(filter="take", params=dict(n=None, strict=True), N=10, kind="simulated", ctx="dense", seed=0), inter, F.Take(None, True), [2, [], True, 10]))
    for n in (1, 2, 3):
        for posn in range(0, 9):
            seed = c05.seed_for(0, n - 1 + posn) if n > 1 else c05.seed_for(0, posn)
            inter40 = make_interactions(rng, 40, "simulated", "dense")
            cs.append((dict(filter="reservoir", params=dict(n=n, strict=False, seed=seed), N=40, kind="simulated", ctx="dense", seed=seed), inter40,
                       F.Reservoir(n, seed=seed), [4, [n], False, 40, c05.enc_seed(seed), [opt(s) for s in reservoir_skips(seed, n, 40)]]))
    # the largest generator state at one of the first draws (the uniform draw closest to 1): Shuffle and Reservoir stay inside their index ranges
    top = 2**30 - 1
    for k in range(5):
        seed = c05.seed_for(top, k)
        inter8 = make_interactions(rng, 8, "simulated", "dense")
        cs.append((dict(filter="shuffle", params=dict(seed=seed), N=8, kind="simulated", ctx="dense", seed=seed), inter8, F.Shuffle(seed), [1, 8, c05.enc_seed(seed)]))
        inter40 = make_interactions(rng, 40, "simulated", "dense")
        cs.append((dict(filter="reservoir", params=dict(n=3, strict=False, seed=seed), N=40, kind="simulated", ctx="dense", seed=seed), inter40,
                   F.Reservoir(3, seed=seed), [4, [3], False, 40, c05.enc_seed(seed), [opt(x) for x in reservoir_skips(seed, 3, 40)]]))
    return cs

def environments_law(ctx):
    """Environments.cache() / chunk() / params() / batch().unbatch() over SEVERAL environments: each environment still yields its own interactions, in any reading order, repeatedly"""
    import coba
    from .c04 import read_all
    rng = ctx.rng
    for _ in range(ctx.n(12, 120)):
        seeds = rng.sample(range(1, 40), rng.choice([2, 3]))
        n = rng.choice([3, 6, 30])
        how = rng.choice(["cache", "chunk", "cache+chunk", "batch"])
        order = list(range(len(seeds))); rng.shuffle(order)
        case = dict(what="several environments", n=n, shuffle_seeds=seeds, shortcut=how, read_order=order)
        ctx.count("environments:" + how, repr(case), True)
        try:
            base = lambda: coba.Environments.from_linear_synthetic(n, n_actions=3, n_context_features=2, n_action_features=0, seed=5).shuffle(list(seeds))
            ref = [read_all(e) for e in base()]
            envs = base()
            envs = envs.cache() if how == "cache" else envs.chunk() if how == "chunk" else envs.cache().chunk() if how == "cache+chunk" else envs.batch(2).unbatch()
            for j in order + order[::-1]:
                got = read_all(envs[j])
                if got != ref[j]:
                    ctx.fail(["environments", "not-identity", how], "environment %d of %d after .%s() reads %d interactions that are not its own (first difference at %s)" % (
                        j, len(seeds), how, len(got), next((i for i, (a, b) in enumerate(zip(got, ref[j])) if a != b), min(len(got), len(ref[j])))), case); break
        except Exception as e:
            ctx.fail(["environments", "raises", errname(e)], "raised %s: %s on %s" % (errname(e), str(e)[:100], case), case)

def shortcuts_law(ctx):
    """the Environments shortcuts promise what the filters promise: take / reservoir (strict or not) / slice / riffle / where through the shortcut keep exactly the
    interactions the filter's own promise gives (prefix or nothing; min(n,N) distinct members or nothing; the slice; a permutation; all or nothing)"""
    import coba
    from .c04 import read_all
    rng = ctx.rng
    for _ in range(ctx.n(60, 600)):
        N = rng.choice([0, 1, 3, 6, 9]); n = rng.choice([0, 1, 2, 4, 6, 8, 12]); strict = rng.random() < 0.6
        how = rng.choice(["take", "reservoir", "reservoir", "slice", "riffle", "where"])
        case = dict(what="Environments shortcut", shortcut=how, N=N, n=n, strict=strict); ctx.count("shortcut:" + how, repr(case), N >= 2)
        try:
            base = coba.Environments.from_linear_synthetic(N, n_actions=3, n_context_features=2, n_action_features=0, seed=7)
            ref = read_all(base[0])
            if how == "take": got = read_all(base.take(n, strict)[0]); ok = got == (ref[:n] if (len(ref) >= n or not strict) else [])
            elif how == "reservoir":
                seeds = rng.choice([3, [3], [3, 4]]); envs = base.reservoir(n, seeds, strict); ok = len(envs) == (len(seeds) if isinstance(seeds, list) else 1)
                for e in envs:
                    got = read_all(e)
                    want_n = (n if len(ref) >= n else (0 if strict else len(ref)))
                    ok = ok and len(got) == want_n and all(g in ref for g in got) and len({json.dumps(g, sort_keys=True, default=str) for g in got}) == len(got)
            elif how == "slice": a, b, st = rng.choice([None, 0, 2]), rng.choice([None, 4, 30]), rng.choice([1, 2]); case["slice"] = [a, b, st]; got = read_all(base.slice(a, b, st)[0]); ok = got == ref[a:b:st]
            elif how == "riffle": got = read_all(base.riffle(rng.choice([1, 3]), 2)[0]); ok = sorted(map(lambda g: json.dumps(g, sort_keys=True, default=str), got)) == sorted(map(lambda g: json.dumps(g, sort_keys=True, default=str), ref))
            else:
                lo, hi = rng.choice([(None, None), (2, None), (None, 4), (3, 8)]); case["n_interactions"] = [lo, hi]
                got = read_all(base.where(n_interactions=(lo, hi))[0]); ok = got == (ref if (lo is None or len(ref) >= lo) and (hi is None or len(ref) <= hi) else [])
            if not ok: ctx.fail(["environments", "shortcut-breaks-promise", how], "Environments.%s on %d interactions gave %d that are not what the filter promises on %s" % (how, len(ref), len(got), case), case)
        except Exception as e:
            ctx.fail(["environments", "raises", errname(e), how], "raised %s: %s on %s" % (errname(e), str(e)[:100], case), case)

def cache_pickle_law(ctx):
    """Cache is an identity also for a copy pickled while a read is in progress (an environment shipped to a worker after a peek): the copy yields the whole sequence"""
    import pickle
    import coba.pipes.filters as P
    import coba.environments.filters as EF
    rng = ctx.rng
    for _ in range(ctx.n(40, 400)):
        N = rng.choice([1, 3, 26, 30, 60]); ns = rng.choice([1, 5, 25]); k = rng.choice([0, 1, ns, ns + 1, N]); env_level = rng.random() < 0.4
        src = [{"id": x} for x in range(N)] if env_level else list(range(N))
        case = dict(what="a Cache pickled after reading k items", N=N, n_slice=ns, k=k, environment_cache=env_level); ctx.count("cache-pickled", repr(case), N >= 2)
        try:
            flt = EF.Cache(ns) if env_level else P.Cache(ns)
            it = iter(flt.filter(iter(src))); head = list(islice(it, k))
            cp = pickle.loads(pickle.dumps(flt)); del it
            got = list(cp.filter(iter(src))); mine = list(flt.filter(iter(src)))
            if got != src or mine != src: ctx.fail(["cache", "pickled-copy-not-identity"], "a Cache pickled after %d of %d items: the copy yields %d items, the original %d" % (k, N, len(got), len(mine)), case)
        except Exception as e:
            ctx.fail(["cache", "raises", errname(e), "pickled"], "raised %s: %s on %s" % (errname(e), str(e)[:100], case), case)

def run(ctx):
    environments_law(ctx)
    shortcuts_law(ctx)
    cache_pickle_law(ctx)
    check(ctx, corpus(ctx.rng), "corpus")
    cases = []
    while len(cases) < ctx.n(1500, 25000):
        c = gen_case(ctx.rng)
        if c: cases.append(c)
    check(ctx, cases, "random")

def replay(r):
    print(json.dumps(r, indent=1)[:3000]); return 0
