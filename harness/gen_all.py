"""Run every translator on /repo's current tree (used by setup.sh). Fails loudly: on the unchanged tree all must succeed."""
import sys, glob, os, importlib
from harness import common
ok = True
for f in sorted(glob.glob(os.path.join(common.VERIF, "harness", "translate", "c[0-9][0-9].py"))):
    pid = os.path.basename(f)[:-3].upper()
    good, detail, fps, changed = common.run_translators(pid)
    print(pid, "ok" if good else "FAILED", detail)
    ok = ok and good
sys.exit(0 if ok else 1)
