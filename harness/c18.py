"""C18 — Result.where_fin / raw_learners / moving_average: model correspondence + naive recomputation oracle."""
from fractions import Fraction as Fr
from collections import Counter, defaultdict
from .common import *

LEVEL_TEXT = ("Coq theorems (C18/Props.v): the sliding and prefix accumulations of moving_average are the sums of the last min(span,i+1) / first i+1 entries (numerators and denominators alike), hence the textbook weighted average for every span incl. the span=1 shortcut and every explicit weight sequence, and the closed form of the 'exp' weighting; "
              "where_fin(l,p) keeps exactly the pairing groups with one evaluation per level; its result is closed (complete w.r.t. its own levels); where_fin(n=k,l,p) leaves equal-length, complete groups; "
              "'min' truncates to the minimum; Result._remove's bisect loop selects exactly the surviving rows for every sorted id table, every list of evaluations to drop and every n. Tied to the code by correspondence of the extracted model on generated Results, plus a naive recomputation oracle from the rows "
              "(consistency of the four tables, values unchanged, raw_learners averages, where/where_fin/where_best chains).")
TRUSTED = ["Coq 8.16.1 kernel (coqc)", "extraction + ocaml/driver.ml", "harness/c18.py (Result generator, key extraction from the parameter tables, naive oracle)",
           "modelled not verified: Table/View machinery (C17), _grouped_ys joins (their effect is compared end-to-end), CPython bisect/sorted (by specification) and the sortedness of the id columns under _remove's theorem (checked on every generated Result), binary64 rounding (tolerance 1e-9), plotting"]
ASSUMPTIONS = ["span >= 1 ('every span' is read as every positive span; span=0 divides by zero by construction)", "parameter values are hashable",
               "for where_fin(n=k,l,p) the oracle demands necessary conditions (complete groups, exact length k, unchanged values, consistent tables); exact membership is compared with the model only"]
RULE = ("Results with 1-4 environments x 1-4 learners x 1-2 evaluators, missing triples, ragged lengths 1-8, duplicate parameter values; l/p as ids, parameter columns or lists; n in {None,'min',k}; "
        "spans None,1,2,3,N,N+1, weights None/list/'exp'; non-trivial = at least 2 evaluations")

def fingerprints():
    return fingerprint_defs('coba/results/core.py', ['moving_average', 'Result._filter_fin', 'Result._group_p', 'Result._global_n', 'Result._remove', 'Result._grouped_ys', 'Result.raw_learners', 'Result._finished', 'Result.filter_best'])

# ------------------------------------------------------------------ moving_average
def ma_oracle(vs, span, weights):
    out = []
    n = len(vs)
    if weights == "exp":
        a = Fr(2, 1 + span)
        for i in range(n):
            num = sum((1 - a) ** j * vs[i - j] for j in range(i + 1)); den = sum((1 - a) ** j for j in range(i + 1))
            out.append(num / den)
        return out
    ws = weights or [1] * n
    for i in range(n):
        lo = 0 if span is None else max(0, i - span + 1)
        out.append(Fr(sum(v * w for v, w in zip(vs[lo:i + 1], ws[lo:i + 1])), sum(ws[lo:i + 1])))
    return out

def check_ma(ctx, n_cases):
    from coba.results.core import moving_average
    rng = ctx.rng
    reqs, metas = [], []
    for _ in range(n_cases):
        n = rng.choice([0, 1, 2, 3, 5, 8, 12])
        vs = [rng.randrange(-3, 6) for _ in range(n)]
        span = rng.choice([None, 1, 2, 3, n, n + 1]) if n else rng.choice([None, 1, 2])
        if span == 0: span = None
        wk = rng.choice(["none", "none", "list", "exp"])
        if wk == "exp" and span is None: span = 2
        weights = None if wk == "none" else ("exp" if wk == "exp" else [rng.randrange(1, 4) for _ in range(n)])
        case = dict(values=vs, span=span, weights=weights)
        ctx.count("moving_average:" + wk, repr(case), n >= 2)
        try:
            got = [Fr(x) for x in moving_average(list(vs), span, weights if weights != [] else None)]
        except Exception as e:
            ctx.fail(["moving_average", "raises", errname(e)], "moving_average(%s) raised %s" % (case, errname(e)), case); continue
        exp = ma_oracle(vs, span, weights if weights else None)
        if len(got) != len(exp) or any(abs(float(a - b)) > 1e-9 for a, b in zip(got, exp)):
            ctx.fail(["moving_average", "wrong", wk], "moving_average(%s) -> %s, textbook %s" % (case, [float(x) for x in got], [str(x) for x in exp]), case); continue
        if wk == "exp": reqs.append((18, [1, [s_q(v) for v in vs], s_q(span)]))
        else: reqs.append((18, [0, vs, s_opt(span), [weights] if weights else []]))
        metas.append((case, got, wk))
        ctx.sample(dict(case=case, impl=[float(x) for x in got][:6]), cap=3)
    for (case, got, wk), mo in zip(metas, ctx.get_model().batch(reqs)):
        m = [un_q(x) for x in mo] if wk == "exp" else [Fr(a, b) for a, b in zip(mo[0], mo[1])]
        if len(m) != len(got) or any(abs(float(a - b)) > 1e-9 for a, b in zip(got, m)):
            ctx.disagree("C18.moving_average", case, [float(x) for x in got], [str(x) for x in m])

# ------------------------------------------------------------------ Results
def gen_result(rng):
    from coba.results.core import Result
    ne, nl, nv = rng.choice([1, 2, 3, 4, 4, 12, 13]), rng.choice([1, 2, 3, 4]), rng.choice([1, 1, 2])      # 12+: ids of one and two digits
    trip = {}
    one_val_per_learner = rng.random() < 0.3       # every learner is evaluated by exactly one evaluator (an evaluator can lose its only learner)
    if one_val_per_learner: nv = rng.choice([2, 2, 3])
    own = {l: rng.randrange(nv) for l in range(nl)}
    for e in range(ne):
        for l in range(nl):
            for v in range(nv):
                if one_val_per_learner and v != own[l]: continue
                if rng.random() < (0.95 if one_val_per_learner else 0.8): trip[(e, l, v)] = rng.choice([1, 2, 3, 3, 5, 8])
    envs = sorted({t[0] for t in trip}); lrns = sorted({t[1] for t in trip}); vals = sorted({t[2] for t in trip})
    ep = {e: rng.choice(["A", "B"]) for e in envs}; lp = {l: rng.choice([1, 2]) for l in lrns}
    # 'reindex': a parameter column whose name contains 'index'; 'seed': a name that environments, learners and evaluators all report (as real ones do) - it means the environments' column
    er = [["environment_id", "ep", "reindex", "seed"]] + [[e, ep[e], ep[e], ep[e]] for e in envs]
    lr = [["learner_id", "family", "lp", "seed"]] + [[l, "f%d" % (l % 2), lp[l], lp[l]] for l in lrns]
    vr = [["evaluator_id", "vp", "seed"]] + [[v, "z%d" % v, "z%d" % v] for v in vals]
    ir = [["environment_id", "learner_id", "evaluator_id", "index", "reward"]]
    rew = {}
    for (e, l, v), n in sorted(trip.items()):
        rew[(e, l, v)] = [rng.randrange(0, 5) for _ in range(n)]
        for i in range(n): ir.append([e, l, v, i + 1, rew[(e, l, v)][i]])
    return Result(er, lr, vr, ir), dict(trip=trip, ep=ep, lp=lp, rew=rew, fam={l: "f%d" % (l % 2) for l in lrns})

def rows_of(r):
    cols = r.interactions.columns
    return [dict(zip(cols, row)) for row in r.interactions]

def trips_of(r):
    d = defaultdict(list)
    for row in rows_of(r): d[(row["environment_id"], row["learner_id"], row["evaluator_id"])].append((row["index"], row["reward"]))
    return d

def key_of(meta, t, col):
    e, l, v = t
    if isinstance(col, (list, tuple)): return tuple(key_of(meta, t, c) for c in col)
    return {"environment_id": e, "learner_id": l, "evaluator_id": v, "ep": meta["ep"].get(e), "seed": meta["ep"].get(e), "lp": meta["lp"].get(l), "family": meta["fam"].get(l), "vp": "z%d" % v}[col]

def consistent(ctx, r, what, case):
    t = trips_of(r)
    es, ls, vs = {k[0] for k in t}, {k[1] for k in t}, {k[2] for k in t}
    te, tl, tv = set(r.environments["environment_id"]) if len(r.environments) else set(), set(r.learners["learner_id"]) if len(r.learners) else set(), set(r.evaluators["evaluator_id"]) if len(r.evaluators) else set()
    if (es, ls, vs) != (te, tl, tv):
        ctx.fail([what, "tables-inconsistent"], "%s: interactions reference envs %s learners %s evaluators %s but the tables hold %s %s %s" % (what, sorted(es), sorted(ls), sorted(vs), sorted(te), sorted(tl), sorted(tv)), case)
        return False
    return True

def check_fin(ctx, n_cases):
    rng = ctx.rng
    reqs, metas = [], []
    for _ in range(n_cases):
        r, meta = gen_result(rng)
        if not meta["trip"]: continue
        lp_choice = rng.choice([("learner_id", "environment_id"), ("learner_id", "environment_id"), ("lp", "environment_id"), ("learner_id", "ep"), ("learner_id", "seed"), ("family", "ep"),
                                (["learner_id", "evaluator_id"], "environment_id"), ("learner_id", ["environment_id", "evaluator_id"]), None])
        n = rng.choice([None, None, "min", 1, 2, 3, 5])
        if lp_choice is None and n is None: n = "min"
        case = dict(triples={str(k): v for k, v in meta["trip"].items()}, ep=meta["ep"], lp=meta["lp"], l=lp_choice and lp_choice[0], p=lp_choice and lp_choice[1], n=n)
        ctx.count("where_fin", repr(case), len(meta["trip"]) >= 2)
        try:
            f = r.where_fin(n, *(lp_choice or (None, None)))
        except Exception as e:
            ctx.fail(["where_fin", "raises", errname(e)], "where_fin raised %s: %s on %s" % (errname(e), str(e)[:100], case), case); continue
        got = trips_of(f)
        orig = trips_of(r)
        ok = True
        # values unchanged: every remaining evaluation is a prefix of the original rows, numbered 1..m
        for t, rows in got.items():
            if rows != orig.get(t, [])[:len(rows)] or [i for i, _ in rows] != list(range(1, len(rows) + 1)):
                ctx.fail(["where_fin", "values-changed"], "evaluation %s is not a prefix of the original rows" % (t,), case); ok = False; break
        if not ok: continue
        if got and not consistent(ctx, f, "where_fin", case): continue
        lens = {t: len(rows) for t, rows in got.items()}
        if n == "min" and lens and len(set(lens.values())) != 1: ctx.fail(["where_fin", "unequal-length"], "n='min' left lengths %s" % lens, case); continue
        if isinstance(n, int) and any(m != n for m in lens.values()): ctx.fail(["where_fin", "unequal-length"], "n=%d left lengths %s" % (n, lens), case); continue
        if lp_choice:
            lcol, pcol = lp_choice
            groups = defaultdict(list)
            for t in got: groups[key_of(meta, t, pcol)].append(key_of(meta, t, lcol))
            levels = {x for g in groups.values() for x in g}
            bad = [p for p, g in groups.items() if sorted(map(repr, g)) != sorted(map(repr, levels))]
            if bad: ctx.fail(["where_fin", "incomplete-group"], "group(s) %s do not have exactly one evaluation per level %s: %s" % (bad, sorted(map(repr, levels)), dict(groups)), case); continue
            if n is None:
                og = defaultdict(list)
                for t in orig: og[key_of(meta, t, pcol)].append(key_of(meta, t, lcol))
                olev = {x for g in og.values() for x in g}
                exp = {t for t in orig if sorted(map(repr, og[key_of(meta, t, pcol)])) == sorted(map(repr, olev))}
                if set(got) != exp: ctx.fail(["where_fin", "wrong-groups"], "kept %s, complete groups are %s" % (sorted(got), sorted(exp)), case); continue
        # model: keys -> ints
        ids = sorted(orig)
        if lp_choice:
            pk = {k: i for i, k in enumerate(dict.fromkeys(repr(key_of(meta, t, lp_choice[1])) for t in ids))}
            lk = {k: i for i, k in enumerate(dict.fromkeys(repr(key_of(meta, t, lp_choice[0])) for t in ids))}
            evs = [[pk[repr(key_of(meta, t, lp_choice[1]))], lk[repr(key_of(meta, t, lp_choice[0]))], i, len(orig[t])] for i, t in enumerate(ids)]
        else: evs = [[0, 0, i, len(orig[t])] for i, t in enumerate(ids)]
        nk = [0] if n is None else ([1] if n == "min" else [2, n])
        reqs.append((18, [2, nk, bool(lp_choice), evs])); metas.append((case, ids, lens))
        ctx.sample(dict(case=case, kept={str(k): v for k, v in lens.items()}), cap=4)
    for (case, ids, lens), mo in zip(metas, ctx.get_model().batch(reqs)):
        m = {ids[i]: n for i, n in mo}
        if m != lens: ctx.disagree("C18.filter_fin", case, {str(k): v for k, v in lens.items()}, {str(k): v for k, v in m.items()})

def check_raw(ctx, n_cases):
    rng = ctx.rng
    for _ in range(n_cases):
        r, meta = gen_result(rng)
        if not meta["trip"]: continue
        span = rng.choice([None, 1, 2, 3])
        xkind = rng.choice(["index", "index", "ep", "reindex", "seed"])
        case = dict(triples={str(k): v for k, v in meta["trip"].items()}, ep=meta["ep"], span=span, x=xkind)
        ctx.count("raw_learners:" + xkind, repr(case), len(meta["trip"]) >= 2)
        try:
            fin = r.where_fin("min" if xkind == "index" else None, "learner_id", "environment_id")
            if len(fin.interactions) == 0: continue
            tbl = r.raw_learners(x=xkind, y="reward", l="learner_id", p="environment_id", span=span)
        except Exception as e:
            ctx.fail(["raw_learners", "raises", errname(e)], "raw_learners raised %s: %s on %s" % (errname(e), str(e)[:100], case), case); continue
        kept = trips_of(fin)
        got = {}
        for d in tbl.to_dicts():
            for k, v in d.items():
                if k != "x": got[(k, d["x"])] = sorted(Fr(z) for z in v) if v is not None and v is not type(v) else v
        exp = defaultdict(list)
        for (e, l, v), rows in kept.items():
            ys = [Fr(y) for _, y in rows]
            if xkind == "index":
                for i, a in enumerate(ma_oracle(ys, span, None)): exp[(l, i + 1)].append(a)
            else:
                tail = ys if span is None else ys[-span:]
                exp[(l, meta["ep"][e])].append(sum(tail) / len(tail))
        exp = {k: sorted(v) for k, v in exp.items()}
        try:
            same = set(got) >= set(exp) and all(len(got[k]) == len(exp[k]) and all(abs(float(a - b)) < 1e-9 for a, b in zip(got[k], exp[k])) for k in exp)
        except Exception:
            same = False
        if not same: ctx.fail(["raw_learners", "wrong-averages", xkind], "raw_learners -> %s, direct computation %s" % ({str(k): [float(z) for z in v] for k, v in got.items() if v}, {str(k): [float(z) for z in v] for k, v in exp.items()}), case)

def check_chains(ctx, n_cases):
    rng = ctx.rng
    for _ in range(n_cases):
        r, meta = gen_result(rng)
        if not meta["trip"]: continue
        case = dict(triples={str(k): v for k, v in meta["trip"].items()}, ep=meta["ep"], lp=meta["lp"])
        ctx.count("chain", repr(case), len(meta["trip"]) >= 2)
        try:
            steps = []
            cur = r
            for _ in range(rng.randrange(1, 4)):
                k = rng.choice(["where_env", "where_lrn", "fin", "best", "where_val"])
                if k == "where_env": cur = cur.where(environment_id=rng.sample(sorted(meta["ep"]), rng.randrange(1, len(meta["ep"]) + 1)))
                elif k == "where_lrn": cur = cur.where(lp=rng.choice([1, 2]))
                elif k == "where_val": cur = cur.where(evaluator_id=0)
                elif k == "fin": cur = cur.where_fin(rng.choice([None, "min", 2]), *rng.choice([("learner_id", "environment_id"), (["learner_id", "evaluator_id"], "environment_id")]))
                else:
                    if len(cur.interactions) == 0: break
                    cur = cur.where_best("family", "environment_id")
                steps.append(k)
                if len(cur.interactions) and not consistent(ctx, cur, "chain:" + "+".join(steps), dict(case, steps=steps)): break
                orig = trips_of(r)
                for t, rows in trips_of(cur).items():
                    if rows != orig.get(t, [])[:len(rows)]:
                        ctx.fail(["chain", "values-changed"], "after %s evaluation %s is not a prefix of the original rows" % (steps, t), dict(case, steps=steps)); break
        except Exception as e:
            ctx.fail(["chain", "raises", errname(e)], "chain %s raised %s: %s" % (steps, errname(e), str(e)[:100]), dict(case, steps=steps))

def corpus(ctx):
    """fixed findings: duplicated level inside a group; n=k leaving an incomplete group"""
    from coba.results.core import Result
    def mk(trip):
        envs = sorted({t[0] for t in trip}); lrns = sorted({t[1] for t in trip}); vals = sorted({t[2] for t in trip})
        ir = [["environment_id", "learner_id", "evaluator_id", "index", "reward"]]
        for (e, l, v), n in sorted(trip.items()): ir += [[e, l, v, i, (e * 7 + l * 3 + v + i) % 5] for i in range(1, n + 1)]
        return Result([["environment_id"]] + [[e] for e in envs], [["learner_id", "family"]] + [[l, "f"] for l in lrns], [["evaluator_id"]] + [[v] for v in vals], ir)
    c = dict(triples="{(1,1,1):3,(1,1,2):3,(2,1,1):3,(2,2,1):3}", l="learner_id", p="environment_id", n=None); ctx.count("corpus", repr(c))
    f = mk({(1, 1, 1): 3, (1, 1, 2): 3, (2, 1, 1): 3, (2, 2, 1): 3}).where_fin(None, "learner_id", "environment_id")
    if set(trips_of(f)) != {(2, 1, 1), (2, 2, 1)}: ctx.fail(["where_fin", "wrong-groups"], "duplicated level: kept %s" % sorted(trips_of(f)), c)
    c = dict(triples="{(1,1,1):2,(1,2,1):5,(2,1,1):5,(2,2,1):5}", l="learner_id", p="environment_id", n=4); ctx.count("corpus", repr(c))
    f = mk({(1, 1, 1): 2, (1, 2, 1): 5, (2, 1, 1): 5, (2, 2, 1): 5}).where_fin(4, "learner_id", "environment_id")
    if set(trips_of(f)) != {(2, 1, 1), (2, 2, 1)}: ctx.fail(["where_fin", "incomplete-group"], "n=4: kept %s" % sorted(trips_of(f)), c)

def remove_spec(rows, ids, n):
    """what Result._remove is for: the row numbers of evaluations that are not listed, plus the first n rows of listed evaluations longer than n"""
    ids = set(ids); size = defaultdict(int); first = {}
    for i, t in enumerate(rows):
        size[t] += 1; first.setdefault(t, i)
    return [i for i, t in enumerate(rows) if t not in ids or (size[t] > n and i - first[t] < n)]

def check_remove(ctx, n_cases):
    """Result._remove (nested bisections over the three id columns) against its specification and against the extracted model of the loop (C18.ModelRemove)"""
    rng = ctx.rng
    reqs, metas = [], []
    for _ in range(n_cases):
        r, meta = gen_result(rng)
        if not meta["trip"]: continue
        cols = r.interactions[["environment_id", "learner_id", "evaluator_id"]]
        rows = [tuple(t) for t in zip(*cols)]
        if rows != sorted(rows):
            ctx.fail(["_remove", "interactions-not-sorted"], "the interactions table of a Result is not sorted by its three id columns, which _remove relies on", dict(rows=rows[:20])); continue
        keys = sorted(meta["trip"])
        ids = rng.sample(keys, rng.randrange(0, len(keys) + 1))
        if rng.random() < 0.4: ids += [(rng.randrange(0, 5), rng.randrange(0, 5), rng.randrange(0, 3)) for _ in range(rng.randrange(1, 3))]      # evaluations that do not occur
        if ids and rng.random() < 0.3: ids += rng.sample(ids, 1)       # listed twice
        rng.shuffle(ids)
        n = rng.choice([0, 0, 1, 2, 3, 5])
        case = dict(rows=[list(t) for t in rows], ids=[list(t) for t in ids], n=n)
        ctx.count("_remove", repr(case), len(set(rows)) >= 2 and bool(ids))
        try: got = list(r._remove(list(ids), n))
        except Exception as e:
            ctx.fail(["_remove", "raises", errname(e)], "_remove raised %s: %s" % (errname(e), str(e)[:100]), case); continue
        exp = remove_spec(rows, ids, n)
        if got != exp:
            ctx.fail(["_remove", "wrong-rows"], "_remove(%s, %s) selected rows %s, the rows that survive are %s" % (ids, n, got[:30], exp[:30]), case); continue
        reqs.append((18, [3, [list(t) for t in rows], [list(t) for t in ids], n])); metas.append((case, got))
    for (case, got), mo in zip(metas, ctx.get_model().batch(reqs)):
        if list(mo) != got: ctx.disagree("C18.remove", case, got, mo)

def run(ctx):
    from coba.context import CobaContext, NullLogger
    CobaContext.logger = NullLogger()
    corpus(ctx)
    check_remove(ctx, ctx.n(300, 4000))
    check_ma(ctx, ctx.n(400, 5000))
    check_fin(ctx, ctx.n(500, 6000))
    check_raw(ctx, ctx.n(200, 2500))
    check_chains(ctx, ctx.n(200, 2500))

def replay(r):
    print(json.dumps(r, indent=1, default=str)[:3000]); return 0
