"""Shared machinery of C01 (configuration independence) and C03 (isolation): stub components for the task-level correspondence with Exp/Model.v,
and spec-built real experiments run under execution configurations in a child interpreter."""
import json, math, os, pickle, subprocess, sys
from collections import Counter
from .common import *

MOD = 1000003
def step_state(e, s, v): return (s * 31 + e * 7 + v + 1) % MOD
def pristine(l): return l * 1000 + 17

# ------------------------------------------------------------------ stub components (picklable: module level)
class SEnv:
    def __init__(self, uid, chunk=None): self.uid, self._chunk = uid, chunk
    def __iter__(self): return iter([self] if self._chunk is None else [self, self._chunk])
    def read(self): return []
    @property
    def params(self): return {"u": self.uid}
class SLrn:
    def __init__(self, uid): self.uid, self.state = uid, pristine(uid)
    @property
    def params(self): return {"u": self.uid}
CALLS = []
class SVal:
    def __init__(self, uid, F): self.uid, self.F = uid, F
    @property
    def params(self): return {"u": self.uid}
    def evaluate(self, env, lrn):
        s = lrn.state; s2 = step_state(env.uid, s, self.uid); lrn.state = s2
        CALLS.append((env.uid, lrn.uid, self.uid, s))
        if self.F > 0 and (13 * env.uid + 5 * self.uid + s) % self.F == 0: raise Exception("verif: requested failure")
        yield {"a": s, "b": s2}

def alone_stub(e, l, v, F):
    s = pristine(l); s2 = step_state(e, s, v)
    return None if (F > 0 and (13 * e + 5 * v + s) % F == 0) else [s, s2]

def gen_triples(rng):
    ne, nl, nv = rng.choice([1, 2, 3, 4]), rng.choice([1, 2, 3]), rng.choice([1, 1, 2, 3])
    if rng.random() < 0.4:
        trip = [(e, l, v) for e in range(ne) for l in range(nl) for v in range(nv)]
    else:
        trip = [(rng.randrange(ne), rng.randrange(nl), rng.randrange(nv)) for _ in range(rng.choice([1, 2, 3, 5, 8]))]
    if rng.random() < 0.5: rng.shuffle(trip)
    if rng.random() < 0.15 and trip: trip.append(rng.choice(trip))      # the same triple listed twice
    return ne, nl, nv, trip

def task_level(ctx, n, want):
    """real MakeTasks / ChunkTasks / ProcessTasks on stub components vs the extracted Exp model and vs evaluating each triple alone.
    want: 'config' (C01: all chunkings and both execution styles agree) or 'isolation' (C03: rows = alone rows, failures stay local)"""
    from coba.experiments.process import MakeTasks, ChunkTasks, ProcessTasks
    from coba.environments import Chunk
    from coba.context import CobaContext, NullLogger
    old = CobaContext.logger; CobaContext.logger = NullLogger()
    rng = ctx.rng
    reqs, metas = [], []
    try:
        for _ in range(n):
            ne, nl, nv, trip = gen_triples(rng)
            F = rng.choice([0, 0, 2, 3, 5])
            nchunks = rng.choice([0, 0, 1, 2])
            chunk_objs = [Chunk() for _ in range(nchunks)]
            chunk_of = [rng.choice([None] + chunk_objs) for _ in range(ne)]
            desc = dict(triples=[list(t) for t in trip], F=F, chunk_of=[None if c is None else chunk_objs.index(c) for c in chunk_of])
            results = {}
            for mt in (0, 1, 2, 3):
                for style in ("inprocess", "pickled-chunks"):
                    envs = [SEnv(i, chunk_of[i]) for i in range(ne)]; lrns = [SLrn(i) for i in range(nl)]; vals = [SVal(i, F) for i in range(nv)]
                    triples = [(envs[e], lrns[l], vals[v]) for e, l, v in trip]
                    tasks = list(MakeTasks(triples).read())
                    # ids by first appearance, copy flags
                    cnt = Counter(l for _, l, _ in trip)
                    for t in tasks:
                        if t.env is not None and t.lrn is not None and t.val is not None:
                            if t.copy != (cnt[t.lrn.uid] > 1):
                                ctx.fail(["make-tasks", "copy-flag"], "Task.copy is %s for a learner object listed in %d triples" % (t.copy, cnt[t.lrn.uid]), desc)
                    chunks = [list(c) for c in ChunkTasks(mt).filter(tasks)]
                    if Counter(map(id, tasks)) != Counter(id(t) for c in chunks for t in c):
                        ctx.fail(["chunk-tasks", "not-a-partition"], "ChunkTasks(%d) does not return every task exactly once" % mt, desc); continue
                    if mt and any(len(c) > mt for c in chunks):
                        ctx.fail(["chunk-tasks", "too-big"], "ChunkTasks(%d) produced a chunk of %d tasks" % (mt, max(map(len, chunks))), desc)
                    outs, groups = [], []
                    if style == "inprocess":
                        del CALLS[:]
                        for c in chunks: outs += list(ProcessTasks().filter(c))
                        groups = [[(e, l, v) for e, l, v, _ in CALLS]]
                    else:
                        for c in chunks:
                            del CALLS[:]
                            outs += list(ProcessTasks().filter(pickle.loads(pickle.dumps(c))))
                            groups.append([(e, l, v) for e, l, v, _ in CALLS])
                    uid = {"e": {}, "l": {}, "v": {}}
                    for t in tasks:
                        if t.env is not None: uid["e"][t.env_id] = t.env.uid
                        if t.lrn is not None: uid["l"][t.lrn_id] = t.lrn.uid
                        if t.val is not None: uid["v"][t.val_id] = t.val.uid
                    got = {}
                    for o in outs:
                        if o[0] == "T4":
                            k = (uid["e"][o[1][0]], uid["l"][o[1][1]], uid["v"][o[1][2]])
                            rows = [[r["a"], r["b"]] for r in o[2]]
                            if k in got and got[k] != rows: ctx.fail(["process", "duplicate-triple-differs"], "the triple %s was recorded with %s and %s" % (k, got[k], rows), desc)
                            got[k] = rows
                    key = "%s/mt=%d" % (style, mt)
                    results[key] = got
                    ctx.count("tasks:%s" % style, repr((desc, mt)), len(set(trip)) >= 2)
                    # shared learner objects stay pristine in the caller's process
                    if style == "inprocess":
                        for l in lrns:
                            if cnt[l.uid] > 1 and l.state != pristine(l.uid):
                                ctx.fail(["process", "shared-learner-mutated"], "a learner object listed in %d triples was trained in place" % cnt[l.uid], desc)
                    reqs.append((1, [F, [list(t) for t in trip], [[list(t) for t in g] for g in groups]])); metas.append((desc, key, got))
                    if want == "isolation":
                        for k in set(trip):
                            exp = alone_stub(*k, F)
                            g = got.get(k)
                            if exp is None and g is not None: ctx.fail(["isolation", "failed-triple-recorded"], "%s: the triple %s raises when evaluated alone but has rows %s" % (key, k, g), desc)
                            elif exp is not None and g is None: ctx.fail(["isolation", "rows-missing"], "%s: the triple %s completes alone but has no rows (failing triples: %s)" % (key, k, [t for t in set(trip) if alone_stub(*t, F) is None]), desc)
                            elif exp is not None and g != [exp]: ctx.fail(["isolation", "rows-differ"], "%s: the triple %s recorded %s, evaluated alone on a pristine learner it gives %s" % (key, k, g, [exp]), desc)
            if want == "config":
                base = results.get("inprocess/mt=0")
                for key, got in results.items():
                    if got != base:
                        diff = [k for k in set(got) | set(base) if got.get(k) != base.get(k)][:3]
                        ctx.fail(["config", "tasks-differ", key.split("/")[0]], "%s differs from inprocess/mt=0 on triples %s: %s vs %s" % (key, diff, [got.get(k) for k in diff], [base.get(k) for k in diff]), desc); break
        for (desc, key, got), mo in zip(metas, ctx.get_model().batch(reqs)):
            m = {}
            for k, r in mo: m[tuple(k)] = [list(r)]
            if m != got: ctx.disagree("Exp.run_groups", dict(desc, style=key), repr(sorted(got.items()))[:500], repr(sorted(m.items()))[:500])
    finally:
        CobaContext.logger = old

# ------------------------------------------------------------------ real experiments from specs (built afresh for every run, also inside the child)
class CountingLearner:
    """stateful, returns a PMF"""
    def __init__(self, k=1): self.k, self.n = k, 0
    @property
    def params(self): return {"family": "Counting", "k": self.k}
    def predict(self, context, actions):
        i = (self.n * self.k) % len(actions)
        return [0.5 + 0.5 / len(actions) if j == i else 0.5 / len(actions) for j in range(len(actions))] if len(actions) > 1 else [1.0]
    def learn(self, context, action, reward, probability, **kw): self.n += 1 + (1 if reward > 0.5 else 0)
class KwargsLearner:
    """stateful, returns (action, probability, kwargs) and gets the kwargs back in learn"""
    def __init__(self): self.tot = 0
    @property
    def params(self): return {"family": "Kwargs"}
    def predict(self, context, actions):
        i = self.tot % len(actions)
        return actions[i], 1.0, {"tag": self.tot}
    def learn(self, context, action, reward, probability, tag=None, **kw): self.tot += 1 + (tag or 0) % 3
class InfoLearner:
    """reports diagnostics through CobaContext.learning_info"""
    def __init__(self): self.n = 0
    @property
    def params(self): return {"family": "Info"}
    def score(self, context, actions, action):
        from coba.context import CobaContext
        if actions is None: raise ValueError("probe")      # SafeLearner's has_score probe: answer without touching learning_info
        CobaContext.learning_info["n_scored"] = self.n
        return 1 / len(actions)
    def predict(self, context, actions):
        return actions[self.n % len(actions)], 1.0
    def learn(self, context, action, reward, probability, **kw):
        from coba.context import CobaContext
        self.n += 1; CobaContext.learning_info["seen"] = self.n
class MaybeScoreLearner:
    """instances of ONE class that differ in whether they offer score (like a wrapper that forwards score to whatever it wraps)"""
    def __init__(self, with_score):
        self.w, self.n = with_score, 0
        if with_score: self.score = self._score
    @property
    def params(self): return {"family": "MaybeScore", "score": self.w}
    def _score(self, context, actions, action):
        if actions is None: raise ValueError("probe")
        return 1 / len(actions)
    def predict(self, context, actions): return actions[self.n % len(actions)], 1.0
    def learn(self, context, action, reward, probability, **kw): self.n += 1
class SkewScoreLearner:
    """scores its favourite (the first offered action) high and every other action low - far from any logging policy"""
    def __init__(self): self.n = 0
    @property
    def params(self): return {"family": "SkewScore"}
    def score(self, context, actions, action):
        if actions is None: raise ValueError("probe")
        return 0.6 if action == actions[0] else 0.4 / max(len(actions) - 1, 1)
    def predict(self, context, actions): return actions[0], 0.6
    def learn(self, context, action, reward, probability, **kw): self.n += 1
class FinishLearner:
    """a learner with a finish() hook (closing a model): a finished learner behaves differently, so finishing anything but the evaluated copy shows in later triples"""
    def __init__(self): self.n, self.closed = 0, False
    @property
    def params(self): return {"family": "Finish"}
    def predict(self, context, actions): return actions[(self.n + (1 if self.closed else 0)) % len(actions)], 1.0
    def learn(self, context, action, reward, probability, **kw): self.n += 1
    def finish(self): self.closed = True
class FailingLearner:
    """raises at the k-th call of one of its methods"""
    def __init__(self, where, k): self.where, self.k, self.c, self.err = where, k, {"predict": 0, "learn": 0}, Exception("verif: the same exception object every time")
    @property
    def params(self):
        if self.where == "params": raise Exception("verif: params failure")
        return {"family": "Failing", "where": self.where, "k": self.k}
    def predict(self, context, actions):
        from coba.context import CobaContext
        self.c["predict"] += 1
        CobaContext.learning_info["diag_predicts"] = self.c["predict"]      # diagnostics published before the failure must not reach another evaluation
        if self.where == "predict" and self.c["predict"] == self.k: raise Exception("verif: predict failure")
        if self.where == "predict-same" and self.c["predict"] >= self.k: raise self.err      # e.g. a stored error that is raised again: the batched call and the per-row fallback see one object
        return actions[self.c["predict"] % len(actions)], 1.0
    def learn(self, context, action, reward, probability, **kw):
        from coba.context import CobaContext
        self.c["learn"] += 1
        CobaContext.learning_info["diag_learns"] = self.c["learn"]
        if self.where == "learn" and self.c["learn"] == self.k: raise Exception("verif: learn failure")
class FailingEnv:
    def __init__(self, k): self.k = k
    @property
    def params(self): return {"env_type": "FailingEnv", "k": self.k}
    def read(self):
        from coba.environments import Environments
        for i, x in enumerate(Environments.from_linear_synthetic(6, n_actions=3, seed=7)[0].read()):
            if i == self.k: raise Exception("verif: read failure")
            yield x
class FailingIterEnv(FailingEnv):
    """an environment object that can itself be iterated (as pipelines can) - and whose iteration fails the same way its read does"""
    @property
    def params(self): return {"env_type": "FailingIterEnv", "k": self.k}
    def __iter__(self): return iter(self.read())
class SlowPickleEnv:
    """an environment that is slow to serialise (the loader thread lags behind the workers) but yields the same interactions"""
    def __init__(self, n, seed, delay): self.n, self.seed, self.delay = n, seed, delay
    @property
    def params(self): return {"env_type": "SlowPickle", "seed": self.seed}
    def read(self):
        from coba.environments import Environments
        return Environments.from_linear_synthetic(self.n, n_actions=3, n_context_features=2, n_action_features=2, seed=self.seed)[0].read()
    def __getstate__(self):
        import time; time.sleep(self.delay); return dict(self.__dict__)
    def __setstate__(self, d): self.__dict__.update(d)
try:
    from coba.evaluators import SequentialCB as _SequentialCB
    class SlowParamsCB(_SequentialCB):
        """an evaluator whose params are slow to compute: its record reaches the result later than the records of evaluators with higher ids"""
        def __init__(self, delay): super().__init__(); self._delay = delay
        @property
        def params(self):
            import time; time.sleep(self._delay); return dict(super().params, slow=True)
except Exception: SlowParamsCB = None
def slow_params_cb(delay): return SlowParamsCB(delay)
def custom_eval(env, lrn):
    """a custom evaluator given as a function"""
    from coba.safety import SafeLearner
    lrn = SafeLearner(lrn)
    for i, x in enumerate(env.read()):
        if i >= 4: break
        a, p, kw = lrn.predict(x["context"], x["actions"])
        r = x["rewards"](a) if callable(x["rewards"]) else x["rewards"][x["actions"].index(a)]
        lrn.learn(x["context"], a, r, p, **kw)
        yield {"i": i, "reward": r}

def build(spec):
    """spec -> (triples, description).  spec = dict(envs=[...], lrns=[...], vals=[...], triples=[[e,l,v]...])"""
    from coba.environments import Environments
    from coba.learners import RandomLearner, BanditEpsilonLearner, BanditUCBLearner, FixedLearner
    from coba.evaluators import SequentialCB, RejectionCB
    envs = []
    groups = {}
    for e in spec["envs"]:
        kind = e[0]
        if kind == "lin": envs.append(Environments.from_linear_synthetic(e[1], n_actions=3, n_context_features=2, n_action_features=2, seed=e[2])[0])
        elif kind == "fail": envs.append(FailingEnv(e[1]))
        elif kind == "failiter": envs.append(FailingIterEnv(e[1]))
        elif kind == "slow": envs.append(SlowPickleEnv(e[1], e[2], e[3]))
        elif kind == "group":      # several environments sharing a prefix: base -> [chunk/cache] -> shuffle(n) fan-out [-> batch]
            gid = e[1]
            if gid not in groups:
                g = spec["groups"][gid]
                if g.get("source") == "supervised":      # an environment whose params are complete only once it has been read (n_actions of a SupervisedSimulation)
                    base = Environments.from_supervised([[i % 5, (i * 7) % 3] for i in range(g["n"])], [["a", "b", "c"][(i * i + g["seed"]) % 3] for i in range(g["n"])], "c")
                else:
                    base = Environments.from_linear_synthetic(g["n"], n_actions=g.get("na", 3), n_context_features=2, n_action_features=2, seed=g["seed"])
                if g.get("logged"): base = base.logged(BanditEpsilonLearner(0.5, 3) if g.get("logger") == "eps" else RandomLearner(), seed=2.5)
                if g.get("prefix") == "chunk": base = base.chunk()
                elif g.get("prefix") == "cache": base = base.cache()
                base = base.shuffle(n=g["fan"])
                if g.get("batch"): base = base.batch(g["batch"])
                groups[gid] = list(base)
            envs.append(groups[gid][e[2]])
    lrns = []
    for l in spec["lrns"]:
        kind = l[0]
        lrns.append(RandomLearner() if kind == "random" else BanditEpsilonLearner(0.2) if kind == "eps" else BanditUCBLearner() if kind == "ucb" else FixedLearner([1, 0, 0]) if kind == "fixed"
                    else CountingLearner(l[1]) if kind == "count" else KwargsLearner() if kind == "kwargs" else InfoLearner() if kind == "info" else MaybeScoreLearner(l[1]) if kind == "mscore" else FinishLearner() if kind == "finish" else SkewScoreLearner() if kind == "skew" else FailingLearner(l[1], l[2]))
    vals = []
    for v in spec["vals"]:
        kind = v[0]
        vals.append(SequentialCB() if kind == "seq" else SequentialCB(record=["reward", "action", "probability", "context"], seed=v[1]) if kind == "seq2" else (RejectionCB(seed=v[1]) if len(v) > 1 else RejectionCB()) if kind == "rej" else SequentialCB(record=["reward"], learn="off", eval="ips") if kind == "seqips" else slow_params_cb(v[1]) if kind == "slowparams" else custom_eval)
    return [(envs[e], lrns[l], vals[v]) for e, l, v in spec["triples"]]

DROP = {"predict_time", "learn_time"}
def canon(v):
    if isinstance(v, float): return ["f", "nan" if math.isnan(v) else repr(v)]
    if isinstance(v, (list, tuple)): return [type(v).__name__[0]] + [canon(x) for x in v]
    if isinstance(v, dict): return ["d"] + [[str(k), canon(x)] for k, x in sorted(v.items(), key=lambda kv: str(kv[0]))]
    if v is None or type(v).__name__ == "MissingType": return None
    if isinstance(v, (int, str, bool)): return v
    return ["o", repr(v)[:80]]
def tables(result):
    out = {}
    for name in ("environments", "learners", "evaluators", "interactions"):
        out[name] = [{k: canon(v) for k, v in row.items() if k not in DROP} for row in getattr(result, name).to_dicts()]
    exp = dict(result.experiment); out["experiment"] = canon(exp)
    return out

CHILD = r'''
import sys, json
sys.path.insert(0, %(repo)r); sys.path.insert(0, %(verif)r)
import warnings; warnings.simplefilter("ignore")
from coba.experiments import Experiment
from coba.context import CobaContext, NullLogger
from harness import expcore
if __name__ == "__main__":
    CobaContext.logger = NullLogger()
    for i, job in enumerate(json.load(open(sys.argv[1]))):
        print(json.dumps(["start", i]), flush=True)
        try:
            triples = expcore.build(job["spec"])
            if job.get("only") is not None: triples = [triples[job["only"]]]
            r = Experiment(triples).run(quiet=True, processes=job["p"], maxchunksperchild=job["mc"], maxtasksperchunk=job["mt"], seed=job["seed"])
            out = ["ok", expcore.tables(r)]
        except BaseException as e:
            out = ["raised", type(e).__name__, str(e)[:300]]
        print(json.dumps(["done", i, out]), flush=True)
'''

def run_jobs(jobs, tag, per_job=25):
    """runs the jobs in one child interpreter (real worker processes are spawned from there); returns {index: outcome}, hung index or None"""
    work = os.path.join(VERIF, ".work"); os.makedirs(work, exist_ok=True)
    jf = os.path.join(work, "%s_%d.json" % (tag, os.getpid())); sf = os.path.join(work, "%s_%d.py" % (tag, os.getpid()))
    json.dump(jobs, open(jf, "w")); open(sf, "w").write(CHILD % dict(repo=REPO, verif=VERIF))
    try:
        env = dict(os.environ, PYTHONHASHSEED="0")
        hung = None
        import signal
        pr = subprocess.Popen([sys.executable, "-W", "ignore", sf, jf], stdout=subprocess.PIPE, stderr=subprocess.PIPE, text=True, env=env, start_new_session=True)
        try:
            out, err = pr.communicate(timeout=60 + per_job * len(jobs))
        except subprocess.TimeoutExpired:
            try: os.killpg(pr.pid, signal.SIGKILL)      # the child interpreter and every worker process it spawned
            except OSError: pass
            out, err = pr.communicate(); hung = -1
        done, started = {}, -1
        for line in out.splitlines():
            try: rec = json.loads(line)
            except Exception: continue
            if rec[0] == "start": started = rec[1]
            elif rec[0] == "done": done[rec[1]] = rec[2]
        if hung is not None: hung = started
        return done, hung, err[-400:]
    finally:
        for f in (jf, sf):
            try: os.remove(f)
            except OSError: pass

def gen_spec(rng, failures=False, batched=False):
    groups, envs = [], []
    for _ in range(rng.choice([1, 1, 2])):
        if rng.random() < 0.6:
            g = dict(n=rng.choice([6, 8, 10]), seed=rng.randrange(1, 50), prefix=rng.choice([None, "chunk", "cache", "chunk"]), fan=rng.choice([1, 2, 3]), logged=rng.random() < 0.3, logger=rng.choice(["random", "eps"]), na=rng.choice([3, 3, 2, 4]))
            if batched and rng.random() < 0.5: g["batch"] = 2
            groups.append(g)
            for j in range(g["fan"]): envs.append(["group", len(groups) - 1, j])
        else:
            envs.append(["lin", rng.choice([5, 8]), rng.randrange(1, 50)])
    if failures and rng.random() < 0.4: envs.append([rng.choice(["fail", "failiter"]), rng.choice([0, 2, 4])])
    pool = [["random"], ["eps"], ["ucb"], ["fixed"], ["count", 1], ["count", 2], ["kwargs"], ["info"], ["finish"]]
    if any(g.get("na", 3) != 3 for g in groups): pool = [x for x in pool if x != ["fixed"]]      # FixedLearner's PMF has three entries
    lrns = [rng.choice(pool) for _ in range(rng.choice([1, 2, 3]))]
    if failures: lrns.append(["failing", rng.choice(["predict", "learn", "params"]), rng.choice([1, 2, 3])])
    logged_all = all(e[0] == "group" and groups[e[1]].get("logged") for e in envs)
    vals = [rng.choice([["seq"], ["seq2", rng.choice([3, 7])], ["custom"]] + ([["rej"], ["seqips"]] if logged_all else [])) for _ in range(rng.choice([1, 1, 2]))]
    if logged_all and not failures and rng.random() < 0.6:      # two learners of one class, only one of which can score, under an evaluator that asks
        pair = [["mscore", True], ["mscore", False]]; rng.shuffle(pair); lrns = (lrns + pair)[-3:]
        if not any(v[0] in ("rej", "seqips") for v in vals): vals[0] = rng.choice([["rej"], ["seqips"]])
    if vals == [["custom"]] and any(e[0] == "group" and groups[e[1]].get("batch") for e in envs): vals = [["seq"]]
    ne, nl, nv = len(envs), len(lrns), len(vals)
    if rng.random() < 0.5: trip = [[e, l, v] for e in range(ne) for l in range(nl) for v in range(nv)]
    else:
        trip = [[rng.randrange(ne), rng.randrange(nl), rng.randrange(nv)] for _ in range(rng.choice([2, 3, 5]))]
        if rng.random() < 0.5: trip.sort(key=lambda t: (t[1], t[0], t[2]))
    trip = [t for t in trip if not (vals[t[2]] == ["custom"] and envs[t[0]][0] == "group" and groups[envs[t[0]][1]].get("batch"))] or [[0, 0, 0]]
    return dict(envs=envs, lrns=lrns, vals=vals, groups=groups, triples=trip[:8])

def first_diff(a, b):
    for name in a:
        if a[name] != b.get(name):
            if isinstance(a[name], list) and isinstance(b.get(name), list):
                if len(a[name]) != len(b[name]): return "%s: %d rows vs %d rows" % (name, len(a[name]), len(b[name]))
                for i, (x, y) in enumerate(zip(a[name], b[name])):
                    if x != y:
                        ks = [k for k in set(x) | set(y) if x.get(k) != y.get(k)]
                        return "%s row %d (ids %s): %s" % (name, i, [x.get(c) for c in ("environment_id", "learner_id", "evaluator_id", "index") if c in x], {k: (x.get(k), y.get(k)) for k in ks[:3]})
            return "%s differs" % name
    return None
