"""C10 — representation filters keep reward alignment: before/after oracle on generated interactions and filter chains; model correspondence for the re-keyed rewards."""
import copy
from fractions import Fraction as Fr
from .common import *

LEVEL_TEXT = ("Coq theorems (C10/Props.v): for ANY representation change that keeps the offered actions pairwise distinct, the re-keyed reward function (DiscreteReward(new actions, old rewards) / BinaryReward(new argmax)) gives "
              "the i-th new action exactly the i-th old action's reward, whatever the old reward function was; the logged action stays the same member; chains stay injective; one-hot is injective; the flat one-hot encoding of dense rows as the code computes it keeps rows of one layout distinct (flat_onehot_rows_stay_distinct); a stale (not re-keyed) reward returns 0. "
              "The extracted model predicts the new reward vector from the equality classes of the implementation's old/new actions; a before/after oracle checks rewards, feedbacks and the logged action for every filter and chain.")
TRUSTED = ["Coq 8.16.1 kernel (coqc)", "extraction + ocaml/driver.ml", "harness/c10.py (interaction generator, type-compatible chains, before/after oracle, equality classes of actions)",
           "modelled not verified: the encoders themselves (EncodeCatRows, pipes.Flatten, _make_sparse, _make_dense) - their injectivity on each generated action set is checked, not proved (except one-hot and the flat one-hot form of un-nested dense rows); crc32 hashing collisions are excluded by the oracle's precondition"]
ASSUMPTIONS = ["offered actions are pairwise distinct before the filter", "Densify(method='hashing') is only checked when the hash is injective on the keys present (collisions are a documented trade-off)", "Noise is applied to actions only (reward noise changes rewards by design)"]
RULE = ("interactions with scalar/string/categorical/dense/nested/sparse actions, rewards as list, BinaryReward, DiscreteReward, L1Reward or an arbitrary callable, optional IGL feedbacks and logged action/reward/probability; "
        "chains of 1-3 type-compatible filters (Repr x4x4 schemes, Flatten, Sparsify, Densify lookup/hashing, Noise(action), Finalize); Batch(1..n) over 2-5 interactions whose dict keys come in shuffled orders; Environments shortcuts (dense/sparse/flatten/repr/batch) over 2-4 environments read in turn; non-trivial = >= 2 actions and a filter that changes the actions")

def fingerprints():
    fp = fingerprint_defs('coba/environments/filters.py', ['Repr', 'Flatten', 'Sparsify', 'Densify', 'Noise', 'Batch', 'Finalize'])
    fp.update(fingerprint_defs('coba/primitives.py', ['BinaryReward', 'DiscreteReward', 'L1Reward', 'HammingReward']))
    return fp

LEVELS = ["x", "y", "z", "w"]

def gen_actions(rng, kind, n, LEVELS=LEVELS):
    from coba.primitives import Categorical
    if kind == "mixed":      # a heterogeneous set: a sparse mapping (the empty no-op first, or later) next to dense vectors or scalars
        rest = rng.choice([[tuple(v) for v in rng.sample([(1, 0, 2), (0, 3, 1), (2, 2, 0), (5, 0, 0)], n - 1)], rng.sample(range(2, 9), n - 1)])
        sp = rng.choice([{}, {}, {"q": 1}])
        return [sp] + rest if rng.random() < 0.7 else rest + [sp]
    if kind == "int": return rng.sample(range(1, 9), n)
    if kind == "float": return [x + 0.5 for x in rng.sample(range(1, 9), n)]
    if kind == "str": return rng.sample(["p", "q", "r", "s", "t"], n)
    if kind == "cat": return [Categorical(l, LEVELS) for l in rng.sample(LEVELS, n)]
    if kind == "dense": return [tuple(v) for v in rng.sample([(1, 0, 2), (0, 3, 1), (2, 2, 0), (5, 0, 0), (0, 0, 7)], n)]
    if kind == "densecat": return [(Categorical(l, LEVELS), i) for i, l in enumerate(rng.sample(LEVELS, n))]
    if kind == "densenone": return rng.sample([(1, None), (1, 0), (2, None), (2, 0), (1, ""), (0, 3), (None, 3)], n)      # a missing or empty feature is not a zero
    if kind == "nested": return [((i, i + 1), i + 2) for i in rng.sample(range(1, 9), n)]
    if kind == "nestcat": return [[[Categorical(l, LEVELS), i], i + 1] for i, l in enumerate(rng.sample(LEVELS, n))]      # a categorical inside a nested list of a dense action
    if kind == "sparsecat": return [{"f": [Categorical(l, LEVELS), 1], "g": i + 1} for i, l in enumerate(rng.sample(LEVELS, n))]
    if kind in ("sparsecat2", "sparsecat3"):      # a categorical directly under a named feature of a sparse action (a name of several characters / of one), alone or next to a nested one
        nm, both = ("colour", False) if kind == "sparsecat2" else ("c", True)      # (one layout per kind: the filters read the places of the categoricals off the first action)
        return [dict([(nm, Categorical(l, LEVELS)), ("g", i + 1)] + ([("shape", [Categorical(l, LEVELS), 1])] if both else [])) for i, l in enumerate(rng.sample(LEVELS, n))]
    if rng.random() < 0.4: return [{"f%d" % i: 1} for i in rng.sample(range(1, 30), n)]      # actions that differ in the NAME of their one feature only
    return [{"k%d" % i: 1, "z": i + 1} for i in rng.sample(range(1, 9), n)]

def _with_levels(x, lv):
    from coba.primitives import Categorical
    if isinstance(x, Categorical): return Categorical(str(x), lv)
    if isinstance(x, list): return [_with_levels(v, lv) for v in x]
    if isinstance(x, tuple): return tuple(_with_levels(v, lv) for v in x)
    if isinstance(x, dict): return {k: _with_levels(v, lv) for k, v in x.items()}
    return x

def gen_reward(rng, actions, form):
    from coba.primitives import BinaryReward, DiscreteReward, L1Reward
    vals = [rng.choice([0, 0.25, 0.5, 1, 2]) for _ in actions]
    if form == "list": return vals, vals
    if rng.random() < 0.5: actions = copy.deepcopy(actions)      # the reward function is keyed by equal, but not the same, action objects (e.g. after pickling)
    if form == "binary":
        i = rng.randrange(len(actions)); v = rng.choice([1, 1, 0.5])
        return BinaryReward(actions[i], v), [v if k == i else 0 for k in range(len(actions))]
    if form == "discrete":
        k = rng.random()
        if k < 0.35:      # the reward function lists the actions in an order of its own
            perm = list(range(len(actions))); rng.shuffle(perm)
            return DiscreteReward([actions[i] for i in perm], [vals[i] for i in perm]), vals
        if k < 0.5:
            try: return DiscreteReward({a: v for a, v in reversed(list(zip(actions, vals)))}), vals      # ... or is given as a mapping
            except TypeError: pass
        return DiscreteReward(list(actions), vals), vals
    if form == "l1":
        y = actions[rng.randrange(len(actions))]; return L1Reward(y), [-abs(a - y) for a in actions]
    table = [(a, v) for a, v in zip(actions, vals)]
    return (lambda a, table=table: next((v for x, v in table if x == a), -99)), vals

def gen_interaction(rng, kind, n_inter):
    out = []
    form = rng.choice(["list", "binary", "discrete", "callable"] + (["l1"] if kind in ("int", "float") else []))
    fform = rng.choice([None, None, "list", "discrete", "callable"])
    logged = rng.random() < 0.4
    same_actions = rng.random() < 0.5
    CATK = ("cat", "densecat", "nestcat", "sparsecat", "sparsecat2", "sparsecat3")
    n = rng.choice([2, 3, 3, 4]) if kind not in CATK else rng.choice([2, 3, 4])
    base = gen_actions(rng, kind, n)
    relevel = kind in CATK and same_actions and rng.random() < 0.5      # later interactions list the same levels in another order
    for t in range(n_inter):
        acts = list(base) if same_actions else gen_actions(rng, kind, rng.choice([2, 3, 4]))
        if relevel and t >= rng.choice([1, 2]):
            lv = list(LEVELS); rng.shuffle(lv)
            acts = _with_levels(base, lv)      # the same level names, action by action, as the base set
        r, rv = gen_reward(rng, acts, form)
        it = {"context": rng.choice([None, 1, (1, 2), {"c": 1}]), "actions": acts, "rewards": r}
        exp = {"rewards": rv}
        if fform: f, fv = gen_reward(rng, acts, fform); it["feedbacks"] = f; exp["feedbacks"] = fv
        if logged:
            j = rng.randrange(len(acts)); it["action"] = acts[j]; it["reward"] = rv[j]; it["probability"] = 0.25; exp["logged"] = j
        out.append((it, exp))
    return out, dict(kind=kind, reward_form=form, feedback_form=fform, logged=logged)

def gen_chain(rng, kind):
    import coba.environments.filters as F
    chain, desc = [], []
    cur = kind
    for _ in range(rng.choice([1, 1, 2, 3])):
        opts = []
        if cur in ("cat", "densecat"): opts += ["repr"] * 3
        if cur in ("nestcat", "sparsecat", "sparsecat2", "sparsecat3"): opts += ["repr-nest"] * 3
        if cur in ("nested", "dense", "densecat"): opts.append("flatten")
        if cur in ("int", "float", "str", "dense"): opts.append("sparsify")
        if cur in ("mixed", "densenone"): opts += ["sparsify"] * 3
        if cur in ("sparse",): opts.append("densify")
        if cur in ("int", "float"): opts.append("noise")
        opts += ["finalize", "repr-none"]
        k = rng.choice(opts)
        if k == "repr":
            cc, ca = rng.choice([None, "onehot", "onehot_tuple", "string"]), rng.choice(["onehot", "onehot_tuple", "string"])
            chain.append(F.Repr(cc, ca)); desc.append("Repr(%r,%r)" % (cc, ca))
            cur = {"cat": {"onehot": "dense", "onehot_tuple": "dense", "string": "str"}[ca], "densecat": "dense" if ca != "string" else "densestr"}[cur]
            if cur == "densestr": cur = "other"
        elif k == "repr-nest":
            ca = rng.choice(["onehot", "onehot_tuple", "string"]); chain.append(F.Repr(None, ca)); desc.append("Repr(None,%r)" % ca); cur = "other"
        elif k == "repr-none": chain.append(F.Repr(rng.choice([None, "string"]), None)); desc.append("Repr(.,None)")
        elif k == "flatten": chain.append(F.Flatten()); desc.append("Flatten()"); cur = "dense" if cur != "densecat" else "densecat"
        elif k == "sparsify": c = rng.random() < 0.5; chain.append(F.Sparsify(context=c, action=True)); desc.append("Sparsify(%s,True)" % c); cur = "sparse"
        elif k == "densify":
            m = rng.choice(["lookup", "lookup", "hashing"]); nf = rng.choice([16, 100, 400]); chain.append(F.Densify(nf, m, rng.random() < 0.5, True)); desc.append("Densify(%d,%r,.,True)" % (nf, m)); cur = "densified"
        elif k == "noise": chain.append(F.Noise(action=("i", 1, 3), seed=rng.randrange(1, 50))); desc.append("Noise(action=('i',1,3))"); cur = "other"
        elif k == "finalize": chain.append(F.Finalize()); desc.append("Finalize()")
        if cur in ("other", "densified"): break
    return chain, desc

def eq_classes(values):
    ids, reps = [], []
    for v in values:
        for k, r in enumerate(reps):
            try:
                if v == r: ids.append(k); break
            except Exception: pass
        else: reps.append(v); ids.append(len(reps) - 1)
    return ids

def run_chain(chain, inter):
    cur = [copy.copy(i) for i in inter]
    for f in chain: cur = list(f.filter(iter(cur)))
    return cur

def _case_of(d, inter, **kw):
    return dict(d, interactions=[repr({k: (v if not callable(v) or hasattr(v, "__getstate__") else "<callable>") for k, v in it.items()})[:300] for it in inter], **kw)

def check_batch(ctx, n_cases):
    """Batch only regroups: member j of a batch carries interaction j's actions, its i-th action earns what it earned, the logged triple is that interaction's -
    also when the interactions of a stream list their keys in different orders (keyword order of LoggedInteraction, hand-made dicts)"""
    import coba.environments.filters as F
    rng = ctx.rng
    for _ in range(n_cases):
        kind = rng.choice(["int", "str", "dense", "sparse", "float"])
        pairs, d = gen_interaction(rng, kind, rng.choice([2, 3, 4, 5]))
        inter = []
        for t, (it, exp) in enumerate(pairs):
            keys = list(it)
            if t and rng.random() < 0.6: rng.shuffle(keys)
            inter.append({k: it[k] for k in keys})
        size = rng.choice([1, 2, 3, len(inter)])
        case = _case_of(d, inter, batch_size=size, key_orders=[list(i) for i in inter])
        ctx.count("batch", repr(case), len(inter) >= 2)
        try: out = list(F.Batch(size).filter(iter(inter)))
        except Exception as e:
            ctx.fail(["batch", "raises", errname(e)], "Batch(%d) raised %s: %s" % (size, errname(e), str(e)[:100]), case); continue
        bad = None; n = 0
        try:
            for b, batch in enumerate(out):
                for j, (old, exp) in enumerate(pairs[b * size:(b + 1) * size]):
                    n += 1
                    if list(batch["actions"][j]) != list(old["actions"]): bad = (["batch", "actions-misplaced"], "member %d of batch %d has actions %r, interaction %d has %r" % (j, b, batch["actions"][j], b * size + j, old["actions"])); break
                    for target in ("rewards", "feedbacks"):
                        if target not in old: continue
                        for i in range(len(old["actions"])):
                            col = batch[target]
                            got = col([A[min(i, len(A) - 1)] for A in batch["actions"]])[j] if callable(col) else col[j][i]
                            if got != exp[target][i]: bad = ([ "batch", target + "-misaligned", d["reward_form"] if target == "rewards" else d["feedback_form"]], "after Batch(%d) action %d of interaction %d gets %s %r, it got %r" % (size, i, b * size + j, target, got, exp[target][i])); break
                        if bad: break
                    if bad: break
                    for key in ("action", "reward", "probability", "context"):
                        if key in old and batch[key][j] != old[key]: bad = (["batch", "logged-" + key], "after Batch(%d) the %s of interaction %d is %r, was %r" % (size, key, b * size + j, batch[key][j], old[key])); break
                    if bad: break
                if bad: break
        except Exception as e:
            bad = (["batch", "unreadable", errname(e)], "reading the batches raised %s: %s" % (errname(e), str(e)[:100]))
        if not bad and n != len(pairs): bad = (["batch", "count"], "%d interactions came out of the batches, %d went in" % (n, len(pairs)))
        if bad: ctx.fail(bad[0], bad[1], case)

class _Env:
    def __init__(self, inter, i): self._inter, self._i = inter, i
    @property
    def params(self): return {"i": self._i}
    def read(self): return iter([copy.copy(i) for i in self._inter])

def check_shortcuts(ctx, n_cases):
    """the Environments shortcuts (sparse, dense, flatten, repr, batch) over SEVERAL environments read one after the other in one process: in every environment the
    offered actions stay distinct and the i-th action earns what it earned (a 'lookup' table with room for each environment's own feature names never collides)"""
    from coba.environments import Environments
    from coba.primitives import Environment
    Env = type("Env", (_Env, Environment), {})
    rng = ctx.rng
    for _ in range(n_cases):
        short = rng.choice(["dense", "dense", "sparse", "flatten", "repr", "batch"])
        kind = {"dense": "sparse", "sparse": rng.choice(["dense", "int", "str"]), "flatten": rng.choice(["nested", "dense"]), "repr": rng.choice(["cat", "densecat"]), "batch": rng.choice(["int", "str"])}[short]
        gens = [gen_interaction(rng, kind, rng.choice([1, 2, 3])) for _ in range(rng.choice([2, 3, 4]))]
        envs = Environments([Env([it for it, _ in pairs], k) for k, (pairs, _) in enumerate(gens)])
        if short == "dense":
            names = [len({k for it, _ in pairs for a in it["actions"] for k in a} | {k for it, _ in pairs if isinstance(it["context"], dict) for k in it["context"]}) for pairs, _ in gens]
            nf = max(names + [1]); ctx_flag = rng.random() < 0.5 and all(isinstance(it["context"], dict) for pairs, _ in gens for it, _ in pairs)      # (the generator mixes context types within an environment)
            made = envs.dense(nf, "lookup", context=ctx_flag, action=True); what = "dense(%d,'lookup',%s,True)" % (nf, ctx_flag)
        elif short == "sparse": made = envs.sparse(context=rng.random() < 0.5, action=True); what = "sparse(.,True)"
        elif short == "flatten": made = envs.flatten(); what = "flatten()"
        elif short == "repr": ca = rng.choice(["onehot", "onehot_tuple", "string"]); made = envs.repr("onehot", ca); what = "repr('onehot',%r)" % ca
        else: made = envs.batch(1); what = "batch(1)"
        case = dict(shortcut=what, kind=kind, environments=[_case_of(d, [it for it, _ in pairs]) for pairs, d in gens])
        ctx.count("shortcut:" + short, repr(case), True)
        try: outs = [list(e.read()) for e in made]
        except Exception as e:
            ctx.fail(["shortcut", "raises", errname(e), short], "Environments.%s raised %s: %s" % (what, errname(e), str(e)[:100]), case); continue
        bad = None
        if len(outs) != len(gens): bad = (["shortcut", "count", short], "%d environments came out of %d" % (len(outs), len(gens)))
        for k, ((pairs, d), out) in enumerate(zip(gens, outs)):
            if bad: break
            if len(out) != len(pairs): bad = (["shortcut", "count", short], "environment %d has %d interactions instead of %d" % (k, len(out), len(pairs))); break
            for t, ((old, exp), new) in enumerate(zip(pairs, out)):
                A2 = new["actions"][0] if short == "batch" else new["actions"]
                try:
                    if len(A2) != len(old["actions"]): bad = (["shortcut", "action-count", short], "environment %d interaction %d: actions %r -> %r" % (k, t, old["actions"], A2)); break
                    if any(A2[i] == A2[j] for i in range(len(A2)) for j in range(i)) and not any(old["actions"][i] == old["actions"][j] for i in range(len(A2)) for j in range(i)):
                        bad = (["shortcut", "actions-collapsed", short], "environment %d interaction %d of Environments.%s: distinct actions %r became %r" % (k, t, what, old["actions"], A2)); break
                    for target in ("rewards", "feedbacks"):
                        if target not in old: continue
                        col = new[target]
                        got = [(col([a])[0] if short == "batch" else col(a)) if callable(col) else (col[0][i] if short == "batch" else col[i]) for i, a in enumerate(A2)]
                        if got != list(exp[target]): bad = (["shortcut", target + "-misaligned", short], "environment %d interaction %d of Environments.%s: %s %r, were %r" % (k, t, what, target, got, exp[target])); break
                    if bad: break
                    if "logged" in exp:
                        la = new["action"][0] if short == "batch" else new["action"]
                        if [i for i, a in enumerate(A2) if a == la] != [exp["logged"]]: bad = (["shortcut", "logged-action", short], "environment %d interaction %d of Environments.%s: the logged action %r is not member %d of %r" % (k, t, what, la, exp["logged"], A2)); break
                except Exception as e:
                    bad = (["shortcut", "unreadable", errname(e), short], "environment %d interaction %d of Environments.%s: %s: %s" % (k, t, what, errname(e), str(e)[:100])); break
        if bad: ctx.fail(bad[0], bad[1], case)

def run(ctx):
    import coba.environments.filters as F
    from coba.primitives import BinaryReward, DiscreteReward
    from coba.context import CobaContext, NullLogger
    CobaContext.logger = NullLogger()
    rng = ctx.rng
    reqs = []
    for _ in range(ctx.n(1500, 20000)):
        kind = rng.choice(["int", "float", "str", "cat", "cat", "dense", "densecat", "nested", "sparse", "nestcat", "sparsecat", "sparsecat2", "sparsecat3", "mixed", "densenone"])
        pairs, d = gen_interaction(rng, kind, rng.choice([1, 2, 3, 4]))
        chain, cdesc = gen_chain(rng, kind)
        case = dict(d, chain=cdesc, interactions=[repr({k: (v if not callable(v) or hasattr(v, "__getstate__") else "<callable>") for k, v in it.items()})[:300] for it, _ in pairs])
        ctx.count("chain:" + "+".join(c.split("(")[0] for c in cdesc), repr(case), len(pairs[0][0]["actions"]) >= 2)
        for c in cdesc: ctx.dist["filter:" + c.split("(")[0]] = ctx.dist.get("filter:" + c.split("(")[0], 0) + 1
        try:
            out = run_chain(chain, [it for it, _ in pairs])
        except Exception as e:
            ctx.fail(["chain", "raises", errname(e), "+".join(c.split("(")[0] for c in cdesc)], "chain %s raised %s: %s on %s" % (cdesc, errname(e), str(e)[:100], case), case); continue
        if len(out) != len(pairs): ctx.fail(["chain", "count"], "chain %s changed the number of interactions" % cdesc, case); continue
        ok = True
        for ii, ((old, exp), new) in enumerate(zip(pairs, out)):
            A2 = list(new["actions"])
            if len(A2) != len(old["actions"]): ctx.fail(["chain", "action-count"], "actions %r -> %r" % (old["actions"], A2), case); ok = False; break
            ids2 = eq_classes(A2)
            if len(set(ids2)) != len(ids2):
                if any("Noise" in c for c in cdesc): break      # integer noise made two actions equal: outside the precondition
                if any("hashing" in c for c in cdesc):      # a hash collision is the documented trade-off - when the documented hash (crc32 of the key modulo n_feats) collides
                    import zlib
                    try:
                        prev = run_chain(chain[:-1], [it for it, _ in pairs])[ii]["actions"]; nf = chain[-1]._n_feats
                        pred = [repr(sorted({zlib.crc32(str(k).encode("ascii")) % nf: v for k, v in dict(a.items()).items()}.items())) for a in prev]
                    except Exception: pred = None
                    if pred is None or len(set(pred)) != len(pred): break
                    ctx.fail(["chain", "actions-collapsed", "hashing"], "distinct actions %r became equal after %s although crc32(key) %% %d keeps them apart" % (old["actions"], cdesc, nf), case); ok = False; break
                ctx.fail(["chain", "actions-collapsed", "+".join(c.split("(")[0] for c in cdesc)], "distinct actions %r became %r" % (old["actions"], A2), case); ok = False; break
            for target in ("rewards", "feedbacks"):
                if target not in exp: continue
                r2 = new[target]
                try:
                    got = [r2(a) for a in A2] if callable(r2) else list(r2)
                except Exception as e:
                    ctx.fail(["chain", target + "-raises", errname(e)], "%s(new action) raised %s after %s" % (target, errname(e), cdesc), case); ok = False; break
                if [Fr(g) for g in got] != [Fr(v) for v in exp[target]]:
                    ctx.fail(["chain", target + "-misaligned", "+".join(c.split("(")[0] for c in cdesc), d["reward_form"] if target == "rewards" else d["feedback_form"]],
                             "%s of the actions were %r before and are %r after %s (actions %r -> %r)" % (target, exp[target], got, cdesc, old["actions"], A2), case); ok = False; break
            if not ok: break
            if "logged" in exp:
                j = [k for k, a in enumerate(A2) if a == new["action"]]
                if j != [exp["logged"]] or new["reward"] != old["reward"] or new["probability"] != old["probability"]:
                    ctx.fail(["chain", "logged-action", "+".join(c.split("(")[0] for c in cdesc)], "logged action %r is member %s of %r, it was member %d; reward/prob %r/%r" % (new["action"], j, A2, exp["logged"], new["reward"], new["probability"]), case); ok = False; break
            # model: the re-keyed reward vector predicted from the equality classes of old and new actions
            ids1 = eq_classes(old["actions"])
            if isinstance(old["rewards"], BinaryReward) and d["reward_form"] == "binary":
                am = [k for k, a in enumerate(old["actions"]) if a == old["rewards"]._argmax]
                if am: reqs.append((case, [Fr(v) for v in exp["rewards"]], [1, ids1, ids2, ids1[am[0]], s_q(Fr(old["rewards"]._value))]))
            elif callable(old["rewards"]):
                reqs.append((case, [Fr(v) for v in exp["rewards"]], [0, ids1, ids2, [s_q(Fr(v)) for v in exp["rewards"]]]))
        if ok: ctx.sample(dict(case=case), cap=4)
    # fixed findings: Repr with different schemes on logged data; Sparsify/Densify with reward functions
    from coba.primitives import Categorical
    acts = [Categorical(l, LEVELS) for l in LEVELS[:3]]
    old = {"context": None, "actions": acts, "rewards": [1, 2, 3], "action": acts[1], "reward": 2, "probability": 0.5}
    ctx.count("corpus", "repr-logged")
    new = list(F.Repr("string", "onehot").filter(iter([copy.copy(old), copy.copy(old)])))[0]
    if [k for k, a in enumerate(new["actions"]) if a == new["action"]] != [1]: ctx.fail(["chain", "logged-action", "Repr"], "Repr('string','onehot'): logged action %r not member 1 of %r" % (new["action"], new["actions"]), dict(what="corpus repr-logged"))
    ctx.count("corpus", "sparsify-binary")
    new = list(F.Sparsify(action=True).filter(iter([{"context": None, "actions": [1, 2, 3], "rewards": BinaryReward(2)}])))[0]
    if [new["rewards"](a) for a in new["actions"]] != [0, 1, 0]: ctx.fail(["chain", "rewards-misaligned", "Sparsify", "binary"], "Sparsify(action=True) with BinaryReward: %r" % [new["rewards"](a) for a in new["actions"]], dict(what="corpus sparsify-binary"))
    check_batch(ctx, ctx.n(300, 4000))
    check_shortcuts(ctx, ctx.n(300, 4000))
    mouts = ctx.get_model().batch([(10, r[2]) for r in reqs])
    for (case, exp, _), mo in zip(reqs, mouts):
        m = [un_q(v) for v in mo[0]] if mo else None
        if m != exp: ctx.disagree("C10.run", case, [str(x) for x in exp], None if m is None else [str(x) for x in m])

def replay(r):
    print(json.dumps(r, indent=1, default=str)[:3000]); return 0
