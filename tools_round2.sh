#!/bin/bash
# usage: tools_round2.sh <pid> : confirm the second-round changes m3/m4 of a property and run the property's check against them
pid=$1
for m in m3 m4; do
  ./tools_confirm_mutant.sh $pid $m 2
  if [ -f seeded/$pid-$m/.confirmed ]; then ./tools_mutant.sh $pid /verif/seeded/$pid-$m/patch.diff | tail -2 | tr '\n' ' '; echo; fi
done
